/-
  # Rollouts bound to a TrafficRouting custom resource — the two-party protocol (C03 / C05 / C06 / C09 / C18)

  Part 2: every transition of the closed loop (`RV.TRBind.step`) and every history (`RV.TRBind.run`).
  Part 1 (`RV/Lemmas/TRBindSteps.lean`, same namespace): the TrafficRouting reconcile, the two binding functions, the
  case analysis of one bound Rollout reconcile, `rolling_origin`, and the TrafficRouting-side step theorems
  `routes_only_while_held`, `held_not_restored`, `tr_finalizer_guard`, `tr_keeps_holders`, `trReconcile_eq_TRSM`.
-/
import RV.Lemmas.TRBindSteps
namespace RV.Props.TRBind
open RV.Traffic RV.TRBind RV.Oracle.TRBind RV.Lemmas.TRBind


/-! ## 4b. One reconcile of rollout `i` inside the closed loop -/

/-- the entry of rollout `i` after its reconcile -/
def landEntry (e : Entry) (r : RolloutSM.StepResult) : Entry :=
  { e with w := if r.roGone then e.w else landWl r.w, gone := r.roGone }

theorem step_ro (s s' : JS) (i : Nat) (f : TFault) (e : Entry) (he : s.ros[i]? = some e) (hg : e.gone = false)
    (h : step s (.ro i f) = some s') :
    ∃ r tr', roReconcile i e.bound (roWorld s e) s.tr f = .val r tr' ∧
      s' = { tr := tr', net := r.w.net, mem := r.w.mem, ros := s.ros.set i (landEntry e r) } := by
  simp only [step, he, hg, Bool.false_eq_true, if_false] at h
  split at h
  · cases h
  · rename_i r tr' hr
    cases h
    exact ⟨r, tr', hr, rfl⟩

theorem lt_of_get {α} (l : List α) (i : Nat) (x : α) (h : l[i]? = some x) : i < l.length := by
  rcases Nat.lt_or_ge i l.length with h1 | h1
  · exact h1
  · rw [List.getElem?_eq_none h1] at h; cases h

theorem get_set_self {α} (l : List α) (i : Nat) (x y : α) (h : l[i]? = some x) : (l.set i y)[i]? = some y := by
  rw [List.getElem?_set_self (lt_of_get l i x h)]

theorem get_set_ne {α} (l : List α) (i j : Nat) (y : α) (h : i ≠ j) : (l.set i y)[j]? = l[j]? :=
  List.getElem?_set_ne h

theorem addedOnlyWhenOpen_refl (i : Nat) (tr : Option TRO) : addedOnlyWhenOpen i tr tr = true := by
  unfold addedOnlyWhenOpen; simp

/-- what a reconcile of rollout `i` does to the TrafficRouting: it adds its own finalizer only to a live object that is
    neither Finalizing nor Terminating, and touches nothing else (`othersKept`: nobody else's finalizer, not the own
    finalizer of the TrafficRouting controller, no status, no spec; the object disappears only with the last finalizer) -/
theorem ro_tr_effect (i : Nat) (b : Bool) (w : RolloutSM.World) (tr : Option TRO) (f : TFault) (r : RolloutSM.StepResult) (tr' : Option TRO)
    (h : roReconcile i b w tr f = .val r tr') : addedOnlyWhenOpen i tr tr' = true ∧ othersKept i tr tr' = true := by
  cases ro_cases i b w tr f r tr' h with
  | pass _ ht _ => subst ht; exact ⟨addedOnlyWhenOpen_refl i _, othersKept_refl i _⟩
  | initDone _ _ _ _ hh =>
    obtain ⟨_, _, h3, h4⟩ := handle_spec i tr f
    rw [hh] at h3 h4; exact ⟨h3, h4⟩
  | initWait _ _ _ _ _ hh _ =>
    obtain ⟨_, _, h3, h4⟩ := handle_spec i tr f
    rw [hh] at h3 h4; exact ⟨h3, h4⟩
  | initErr _ _ _ _ _ hh _ =>
    obtain ⟨_, _, h3, h4⟩ := handle_spec i tr f
    rw [hh] at h3 h4; exact ⟨h3, h4⟩
  | finErr _ _ hh _ =>
    obtain ⟨_, _, h3, h4⟩ := finalize_spec i tr f
    rw [hh] at h3 h4; exact ⟨h3, h4⟩
  | finOk _ _ hh _ =>
    obtain ⟨_, _, h3, h4⟩ := finalize_spec i tr f
    rw [hh] at h3 h4; exact ⟨h3, h4⟩

open RV.RolloutSM RV.Props.Reconcile in
theorem ro1_same (ro : Rollout) :
    (handleFinalizer ro).1.phase = ro.phase ∧ (handleFinalizer ro).1.reason = ro.reason ∧ (handleFinalizer ro).1.term = ro.term ∧
    (handleFinalizer ro).1.sub = ro.sub := by
  rw [hf_frame ro]; exact ⟨rfl, rfl, rfl, rfl⟩

theorem roWorld_ro (s : JS) (e : Entry) : (roWorld s e).ro = e.w.ro := rfl

theorem wlSeen_landWl (w : RolloutSM.World) : wlSeen (landWl w) = wlSeen w := by
  unfold wlSeen landWl
  cases w.wl with
  | none => rfl
  | some x => simp [Bool.and_assoc]

/-- after an error of the binding call the rollout's own clean-up has not moved -/
theorem err_not_moved (s : JS) (e : Entry) (r : RolloutSM.StepResult)
    (hw : r.w = { (roWorld s e) with ro := (RolloutSM.handleFinalizer (roWorld s e).ro).1 }) :
    cleanupMoved e (landEntry e r) = false := by
  obtain ⟨h1, h2, h3, h4⟩ := ro1_same (roWorld s e).ro
  rw [roWorld_ro] at h1 h2 h3 h4
  unfold cleanupMoved landEntry
  cases hg : r.roGone with
  | true => simp
  | false =>
    simp only [Bool.false_eq_true, if_false]
    have e1 : wlSeen (landWl r.w) = wlSeen e.w := by
      rw [wlSeen_landWl, hw]; rfl
    have e2 : (landWl r.w).br = e.w.br := by rw [hw]; rfl
    have e3 : (landWl r.w).ro = (RolloutSM.handleFinalizer e.w.ro).1 := by rw [hw]; rfl
    rw [e1, e2, e3]
    simp [finStepOf, h1, h2, h3, h4]


theorem initializing_iff (ro : RolloutSM.Rollout) : initializing ro = true ↔ ro.phase = .progressing ∧ ro.reason = .initializing := by
  unfold initializing; simp

theorem landEntry_ro (e : Entry) (r : RolloutSM.StepResult) (h : r.roGone = false) : (landEntry e r).w.ro = r.w.ro := by
  unfold landEntry; simp [h, landWl]

theorem not_rolling_of_init (ro : RolloutSM.Rollout) (h : initializing ro = true) : rolling ro = false := by
  rw [initializing_iff] at h
  unfold rolling; simp [h.2]

/-- a bound rollout that this reconcile leaves in InRolling / Paused was there before, or has its finalizer on the
    TrafficRouting now -/
theorem rolling_after (i : Nat) (w : RolloutSM.World) (tr : Option TRO) (f : TFault) (r : RolloutSM.StepResult) (tr' : Option TRO)
    (h : roReconcile i true w tr f = .val r tr') (hr : rolling r.w.ro = true) :
    (rolling w.ro = true ∧ tr' = tr) ∨ (i ∈ holdersOf tr ∧ tr' = tr) := by
  cases ro_cases i true w tr f r tr' h with
  | pass h0 ht hc =>
    rcases rolling_origin w r h0 hr with h1 | ⟨h1, h2⟩
    · exact Or.inl ⟨h1, ht⟩
    · rcases hc with hc | hc | ⟨_, hc⟩
      · cases hc
      · rw [h1] at hc; cases hc
      · exact absurd h2 hc
  | initDone _ _ _ _ hh =>
    obtain ⟨h1, _, _, _⟩ := handle_spec i tr f
    rw [hh] at h1
    obtain ⟨h1a, h1b⟩ := h1 rfl
    dsimp only at h1a
    exact Or.inr ⟨h1b, h1a⟩
  | initWait _ _ r0 _ _ _ he =>
    subst he
    simp [rolling] at hr
  | initErr hp _ r0 _ _ _ he =>
    subst he
    dsimp only at hr
    rw [rolling_ro1] at hr
    obtain ⟨p1, p2⟩ := position_init w hp
    simp [rolling, p2] at hr
  | finErr hp _ _ he =>
    subst he
    dsimp only at hr
    rw [rolling_ro1, not_rolling_of_fin w hp] at hr
    cases hr
  | finOk hp _ _ h0 =>
    rcases rolling_origin w r h0 hr with h1 | ⟨h1, _⟩
    · rw [not_rolling_of_fin w hp] at h1; cases h1
    · rw [hp] at h1; cases h1

/-- **2. `rollout_waits_for_binding` (C03)** — for every joint state, every rollout `i`, every fault: a bound Rollout
    leaves Initializing for InRolling only in a reconcile that found its finalizer on the TrafficRouting (never in the
    reconcile that writes it); it adds that finalizer only to a
    live TrafficRouting that is neither Finalizing nor Terminating (no resurrection of a clean-up in progress); and it
    touches nothing else of the TrafficRouting, in particular nobody else's finalizer. -/
theorem rollout_waits_for_binding (s s' : JS) (i : Nat) (f : TFault) (e : Entry) (he : s.ros[i]? = some e) (hg : e.gone = false)
    (h : step s (.ro i f) = some s') :
    ∃ e', s'.ros[i]? = some e' ∧ leavesInitHeld i e e' s.tr s'.tr = true ∧ addedOnlyWhenOpen i s.tr s'.tr = true ∧
      othersKept i s.tr s'.tr = true := by
  obtain ⟨r, tr', hr, hs'⟩ := step_ro s s' i f e he hg h
  subst hs'
  obtain ⟨a1, a2⟩ := ro_tr_effect _ _ _ _ _ _ _ hr
  refine ⟨landEntry e r, get_set_self _ _ _ _ he, ?_, a1, a2⟩
  unfold leavesInitHeld
  cases hprem : (e.bound && initializing e.w.ro && !(landEntry e r).gone && rolling (landEntry e r).w.ro) with
  | false => rfl
  | true =>
    simp only [Bool.and_eq_true, Bool.not_eq_true'] at hprem
    obtain ⟨⟨⟨hb, hinit⟩, hng⟩, hroll⟩ := hprem
    have hng' : r.roGone = false := hng
    rw [landEntry_ro e r hng'] at hroll
    rw [hb] at hr
    rcases rolling_after i _ _ _ _ _ hr hroll with ⟨h1, _⟩ | ⟨h1, h2⟩
    · rw [roWorld_ro, not_rolling_of_init _ hinit] at h1; cases h1
    · dsimp only
      rw [h2]; simp [h1]

/-- **3. `finalise_waits_for_restore_partial` (C05 / C10)** — for every joint state: the own clean-up of a bound Rollout
    (in-progress annotation, BatchRelease, clean-up cursor, verdict) moves only in a reconcile after which its finalizer
    is off the TrafficRouting — or the TrafficRouting is gone.  (`_partial`: the second half of the clause as briefed,
    "and the TrafficRouting reports Healthy", is false on the unchanged code: `finalise_waits_for_restore_full_FALSE`.) -/
theorem finalise_waits_for_restore_partial (s s' : JS) (i : Nat) (f : TFault) (e : Entry) (he : s.ros[i]? = some e) (hg : e.gone = false)
    (h : step s (.ro i f) = some s') :
    ∃ e', s'.ros[i]? = some e' ∧ finaliseFinalizerOff i (position (roWorld s e)) e e' s'.tr = true := by
  obtain ⟨r, tr', hr, hs'⟩ := step_ro s s' i f e he hg h
  subst hs'
  refine ⟨landEntry e r, get_set_self _ _ _ _ he, ?_⟩
  unfold finaliseFinalizerOff
  cases hprem : (e.bound && position (roWorld s e) == .fin && cleanupMoved e (landEntry e r)) with
  | false => rfl
  | true =>
    simp only [Bool.and_eq_true, beq_iff_eq] at hprem
    obtain ⟨⟨hb, hpos⟩, hmoved⟩ := hprem
    dsimp only
    cases ro_cases _ _ _ _ _ _ _ hr with
    | pass _ _ hc =>
      rcases hc with hc | hc | ⟨hc, _⟩
      · rw [hb] at hc; cases hc
      · rw [hpos] at hc; cases hc
      · rw [hpos] at hc; cases hc
    | initDone hp _ _ _ _ => rw [hpos] at hp; cases hp
    | initWait hp _ _ _ _ _ _ => rw [hpos] at hp; cases hp
    | initErr hp _ _ _ _ _ _ => rw [hpos] at hp; cases hp
    | finErr _ _ _ he' =>
      rw [err_not_moved s e r (by rw [he'])] at hmoved; cases hmoved
    | finOk _ _ hh _ =>
      obtain ⟨h1, _, _, _⟩ := finalize_spec i s.tr f
      rw [hh] at h1
      have := h1 rfl
      simp [this]


/-! ### C06 — a failing call on the TrafficRouting -/

theorem handle_get (i : Nat) (tr : Option TRO) : handleTrafficRouting i tr .get = (.err, tr) := by
  unfold handleTrafficRouting; simp

theorem handle_update (i : Nat) (t : TRO) (h1 : i ∉ t.holders) (h2 : t.phase ≠ .finalizing) (h3 : t.phase ≠ .terminating) :
    handleTrafficRouting i (some t) .update = (.err, some t) := by
  unfold handleTrafficRouting; simp [h1, h2, h3]

theorem finalize_get (i : Nat) (tr : Option TRO) : finalizeTrafficRouting i tr .get = (true, tr) := by
  unfold finalizeTrafficRouting; simp

theorem finalize_update (i : Nat) (t : TRO) (h1 : i ∈ t.holders) : finalizeTrafficRouting i (some t) .update = (true, some t) := by
  unfold finalizeTrafficRouting; simp [h1]

/-- **`fault_reported` (C06)** — for every joint state: when the reconcile reaches the call on the TrafficRouting that
    fails (the Get, or the finalizer update), it returns an error, leaves the TrafficRouting as it was, and the
    rollout's own clean-up does not move: nothing happens behind a failed binding call. -/
theorem fault_reported (s s' : JS) (i : Nat) (f : TFault) (e : Entry) (he : s.ros[i]? = some e) (hg : e.gone = false)
    (h : step s (.ro i f) = some s') :
    ∃ r tr' e', roReconcile i e.bound (roWorld s e) s.tr f = .val r tr' ∧ s'.ros[i]? = some e' ∧ s'.tr = tr' ∧
      faultReported (faultReached i e.bound (roWorld s e) s.tr f) r.err e e' s.tr s'.tr = true := by
  obtain ⟨r, tr', hr, hs'⟩ := step_ro s s' i f e he hg h
  subst hs'
  refine ⟨r, tr', landEntry e r, hr, get_set_self _ _ _ _ he, rfl, ?_⟩
  unfold faultReported
  cases hreach : faultReached i e.bound (roWorld s e) s.tr f with
  | false => rfl
  | true =>
    dsimp only
    unfold faultReached at hreach
    simp only [Bool.and_eq_true, bne_iff_ne, ne_eq] at hreach
    obtain ⟨⟨hb, hf⟩, hm⟩ := hreach
    -- the two error cases give the claim; every other case contradicts `reached`
    have errCase : r.err = true → tr' = s.tr → r.w = { (roWorld s e) with ro := (RolloutSM.handleFinalizer (roWorld s e).ro).1 } →
        (r.err && tr' == s.tr && !cleanupMoved e (landEntry e r)) = true := by
      intro h1 h2 h3
      rw [h1, h2, err_not_moved s e r h3]; simp
    cases ro_cases _ _ _ _ _ _ _ hr with
    | pass h0 _ hc =>
      rcases hc with hc | hc | ⟨hc, hne⟩
      · rw [hb] at hc; cases hc
      · rw [hc] at hm; cases hm
      · rw [hc, h0] at hm
        simp only [Bool.and_eq_true, beq_iff_eq] at hm
        exact absurd hm.1 hne
    | initDone hp _ h0 hin hh =>
      rw [hp, h0] at hm
      simp only [Bool.and_eq_true, beq_iff_eq] at hm
      cases f with
      | none => exact absurd rfl hf
      | get => rw [handle_get] at hh; cases hh
      | update =>
        cases htr : s.tr with
        | none => rw [htr] at hm; simp at hm
        | some t =>
          rw [htr] at hm hh
          simp only [Bool.and_eq_true, Bool.not_eq_true', bne_iff_ne, ne_eq] at hm
          obtain ⟨_, ⟨hm1, hm2⟩, hm3⟩ := hm
          rw [handle_update i t (by simpa using hm1) hm2 hm3] at hh; cases hh
    | initWait hp _ r0 h0 hin hh _ =>
      rw [hp, h0] at hm
      simp only [Bool.and_eq_true, beq_iff_eq] at hm
      cases f with
      | none => exact absurd rfl hf
      | get => rw [handle_get] at hh; cases hh
      | update =>
        cases htr : s.tr with
        | none => rw [htr] at hm; simp at hm
        | some t =>
          rw [htr] at hm hh
          simp only [Bool.and_eq_true, Bool.not_eq_true', bne_iff_ne, ne_eq] at hm
          obtain ⟨_, ⟨hm1, hm2⟩, hm3⟩ := hm
          rw [handle_update i t (by simpa using hm1) hm2 hm3] at hh; cases hh
    | initErr _ _ r0 _ _ hh he' =>
      obtain ⟨_, h2, _, _⟩ := handle_spec i s.tr f
      rw [hh] at h2
      exact errCase (by rw [he']) (h2 rfl) (by rw [he'])
    | finErr _ _ hh he' =>
      obtain ⟨_, h2, _, _⟩ := finalize_spec i s.tr f
      rw [hh] at h2
      exact errCase (by rw [he']) (h2 rfl) (by rw [he'])
    | finOk hp _ hh _ =>
      rw [hp] at hm
      cases f with
      | none => exact absurd rfl hf
      | get => rw [finalize_get] at hh; cases hh
      | update =>
        dsimp only at hm
        cases htr : s.tr with
        | none => rw [htr] at hm; simp [holdersOf] at hm
        | some t =>
          rw [htr] at hm hh
          rw [finalize_update i t (by simpa [holdersOf] using hm)] at hh; cases hh


/-! ## 5. Every label: visibility, totality -/

theorem staysVisible_same (l : Label) (tr : Option TRO) : staysVisible l tr tr = true := by
  cases tr <;> rfl

theorem staysVisible_of_some (l : Label) (tr : Option TRO) (t : TRO) : staysVisible l tr (some t) = true := by
  cases tr <;> rfl

/-- **4b. `held_stays_visible` (C18)** — for every joint state and every label: the TrafficRouting object disappears
    only when it is in deletion and its last finalizer goes — a TrafficRouting deleted while rollouts hold it stays
    visible until the last holder has let go (and its own finalizer is off, `tr_finalizer_guard`). -/
theorem held_stays_visible (s s' : JS) (l : Label) (h : step s l = some s') : staysVisible l s.tr s'.tr = true := by
  cases l with
  | ro i f =>
    cases he : s.ros[i]? with
    | none => simp only [step, he] at h; cases h; exact staysVisible_same _ _
    | some e =>
      cases hg : e.gone with
      | true => simp only [step, he, hg, if_true] at h; cases h; exact staysVisible_same _ _
      | false =>
        obtain ⟨r, tr', hr, hs'⟩ := step_ro s s' i f e he hg h
        subst hs'
        obtain ⟨_, a2⟩ := ro_tr_effect _ _ _ _ _ _ _ hr
        dsimp only
        cases htr : s.tr with
        | none => rfl
        | some t =>
          cases tr' with
          | some _ => rfl
          | none =>
            rw [htr] at a2
            unfold othersKept at a2
            exact a2
  | tr =>
    have hk := tr_keeps_holders s s' h
    cases htr : s.tr with
    | none => rfl
    | some t =>
      rw [step_tr s t htr] at h; cases h
      dsimp only
      cases hst : stored (trCore t s.net s.mem).t with
      | some _ => rfl
      | none =>
        obtain ⟨h1, _, h3⟩ := stored_none _ hst
        rw [(core_frame t s.net s.mem).2.1] at h1
        rw [(core_frame t s.net s.mem).1] at h3
        simp [staysVisible, h1, h3]
  | tick => simp only [step] at h; cases h; exact staysVisible_same _ _
  | crash => simp only [step] at h; cases h; exact staysVisible_same _ _
  | deleteTR =>
    simp only [step] at h; cases h
    dsimp only
    cases htr : s.tr with
    | none => rfl
    | some t =>
      simp only [Option.bind_some]
      cases hst : stored { t with deleting := true } with
      | some _ => rfl
      | none =>
        obtain ⟨_, h2, h3⟩ := stored_none _ hst
        simp only at h2 h3
        simp [staysVisible, h2, h3]
  | createTR w g hr =>
    simp only [step] at h
    cases htr : s.tr with
    | none => rfl
    | some t => rw [htr] at h; cases h; rw [htr]; rfl
  | editStrategy w =>
    simp only [step] at h; cases h
    dsimp only
    cases s.tr <;> rfl
  | deleteRo i =>
    simp only [step] at h
    repeat' split at h
    all_goals (cases h; exact staysVisible_same _ _)
  | perturb i w' =>
    simp only [step] at h
    repeat' split at h
    all_goals (cases h; exact staysVisible_same _ _)
  | envNet n => simp only [step] at h; cases h; exact staysVisible_same _ _

/-- **6. `binding_total` (C09)** — for every joint state and every label: no label makes the TrafficRouting controller
    panic (absent object, no strategy, empty `objectRef`, any phase string), and a Rollout reconcile panics only where the
    plain reconcile of `RV.RolloutSM` does — the binding adds no crash … -/
theorem binding_panics_only_plain (s : JS) (l : Label) (h : step s l = none) :
    ∃ i f e, l = .ro i f ∧ s.ros[i]? = some e ∧ e.gone = false ∧ RolloutSM.reconcile (roWorld s e) = .panic := by
  cases l with
  | ro i f =>
    cases he : s.ros[i]? with
    | none => simp only [step, he] at h; cases h
    | some e =>
      cases hg : e.gone with
      | true => simp only [step, he, hg, if_true] at h; cases h
      | false =>
        simp only [step, he, hg, Bool.false_eq_true, if_false] at h
        split at h
        · rename_i hp
          exact ⟨i, f, e, rfl, he, hg, ro_panic_only_plain _ _ _ _ _ hp⟩
        · cases h
  | tr => simp only [step] at h; split at h <;> cases h
  | tick => simp only [step] at h; cases h
  | crash => simp only [step] at h; cases h
  | deleteTR => simp only [step] at h; cases h
  | createTR w g hr => simp only [step] at h; split at h <;> cases h
  | editStrategy w => simp only [step] at h; cases h
  | deleteRo i => simp only [step] at h; repeat' split at h
                  all_goals cases h
  | perturb i w' => simp only [step] at h; repeat' split at h
                    all_goals cases h
  | envNet n => simp only [step] at h; cases h

/-- … hence (with `RV.Props.Reconcile.reconcile_total`) no state of the pair whose rollouts are not corrupted — the
    decidable predicate of C09: states a user cannot produce through the documented editable fields — makes either
    side panic, whatever the TrafficRouting looks like. -/
theorem binding_total (s : JS) (l : Label)
    (hok : ∀ (i : Nat) (e : Entry), s.ros[i]? = some e → e.gone = false → RV.Oracle.RolloutSM.corrupted (roWorld s e) = false) :
    step s l ≠ none := by
  intro h
  obtain ⟨i, f, e, _, he, hg, hp⟩ := binding_panics_only_plain s l h
  exact RV.Props.Reconcile.reconcile_total _ (hok i e he hg) hp


/-! ## 6. Every history (induction over the label list; any number of rollouts sharing one TrafficRouting) -/

/-- an invariant of the transition system holds along every history -/
theorem run_invariant (P : JS → Prop) (hstep : ∀ s l s', P s → step s l = some s' → P s') :
    ∀ (ls : List Label) (s s' : JS), P s → run s ls = some s' → P s' := by
  intro ls
  induction ls with
  | nil => intro s s' hp h; cases h; exact hp
  | cons l ls ih =>
    intro s s' hp h
    unfold run at h
    split at h
    · cases h
    · rename_i s1 h1
      exact ih s1 s' (hstep s l s1 hp h1) h

theorem othersKept_mem (i k : Nat) (pre post : Option TRO) (h : othersKept i pre post = true) (hk : k ≠ i)
    (hm : k ∈ holdersOf pre) : k ∈ holdersOf post := by
  cases pre with
  | none => simp [holdersOf] at hm
  | some t =>
    cases post with
    | none =>
      simp only [othersKept, Bool.and_eq_true, List.all_eq_true, beq_iff_eq] at h
      exact absurd (h.2 k hm) hk
    | some t' =>
      simp only [othersKept, Bool.and_eq_true, List.all_eq_true, Bool.or_eq_true, beq_iff_eq, List.contains_iff_mem] at h
      rcases h.1.2 k hm with h1 | h1
      · exact absurd h1 hk
      · exact h1

/-- a bound rollout that is rolling holds the TrafficRouting -/
def BoundWhileRolling (s : JS) : Prop :=
  ∀ (i : Nat) (e : Entry), s.ros[i]? = some e → e.bound = true → e.gone = false → rolling e.w.ro = true → i ∈ holdersOf s.tr

theorem tickRo_rolling (ro : RolloutSM.Rollout) : rolling (tickRo ro) = rolling ro := rfl

theorem bwr_of_same (s s' : JS) (h : BoundWhileRolling s) (hros : s'.ros = s.ros) (htr : holdersOf s'.tr = holdersOf s.tr) :
    BoundWhileRolling s' := by
  intro i e he hb hg hr
  rw [htr]; rw [hros] at he; exact h i e he hb hg hr

theorem bwr_step (s : JS) (l : Label) (s' : JS) (hinv : BoundWhileRolling s) (h : step s l = some s') : BoundWhileRolling s' := by
  cases l with
  | ro j f =>
    cases he : s.ros[j]? with
    | none => simp only [step, he] at h; cases h; exact hinv
    | some e =>
      cases hg : e.gone with
      | true => simp only [step, he, hg, if_true] at h; cases h; exact hinv
      | false =>
        obtain ⟨r, tr', hr, hs'⟩ := step_ro s s' j f e he hg h
        subst hs'
        obtain ⟨_, a2⟩ := ro_tr_effect _ _ _ _ _ _ _ hr
        intro k ek hek hb hng hroll
        dsimp only at hek ⊢
        by_cases hkj : k = j
        · subst hkj
          rw [get_set_self _ _ _ _ he] at hek
          cases hek
          have hng' : r.roGone = false := hng
          rw [landEntry_ro e r hng'] at hroll
          have hb' : e.bound = true := hb
          rw [hb'] at hr
          rcases rolling_after k _ _ _ _ _ hr hroll with ⟨h1, h2⟩ | ⟨h1, h2⟩
          · rw [h2]; exact hinv k e he hb' hg h1
          · rw [h2]; exact h1
        · rw [get_set_ne _ _ _ _ (fun h => hkj h.symm)] at hek
          exact othersKept_mem j k _ _ a2 hkj (hinv k ek hek hb hng hroll)
  | tr =>
    have hk := tr_keeps_holders s s' h
    cases htr : s.tr with
    | none => rw [step_tr_none s htr] at h; cases h; exact hinv
    | some t =>
      rw [step_tr s t htr] at h; cases h
      intro k ek hek hb hng hroll
      have := hinv k ek hek hb hng hroll
      rw [htr] at this
      dsimp only
      cases hst : stored (trCore t s.net s.mem).t with
      | none =>
        have h3 := (stored_none _ hst).2.2
        rw [(core_frame t s.net s.mem).1] at h3
        simp [holdersOf, h3] at this
      | some t' =>
        have := stored_some _ _ hst; subst this
        simpa [holdersOf, (core_frame t s.net s.mem).1] using this
  | tick =>
    simp only [step] at h; cases h
    intro k ek hek hb hng hroll
    dsimp only at hek ⊢
    rw [List.getElem?_map] at hek
    cases hk : s.ros[k]? with
    | none => rw [hk] at hek; cases hek
    | some e0 =>
      rw [hk] at hek
      simp only [Option.map_some, Option.some.injEq] at hek
      subst hek
      exact hinv k e0 hk hb hng hroll
  | crash => simp only [step] at h; cases h; exact bwr_of_same _ _ hinv rfl rfl
  | deleteTR =>
    simp only [step] at h; cases h
    intro k ek hek hb hng hroll
    have := hinv k ek hek hb hng hroll
    dsimp only
    cases htr : s.tr with
    | none => rw [htr] at this; simp [holdersOf] at this
    | some t =>
      rw [htr] at this
      simp only [Option.bind_some]
      cases hst : stored { t with deleting := true } with
      | none =>
        have h3 := (stored_none _ hst).2.2
        simp only at h3
        simp [holdersOf, h3] at this
      | some t' =>
        have := stored_some _ _ hst; subst this
        exact this
  | createTR w g hr =>
    simp only [step] at h
    cases htr : s.tr with
    | none =>
      intro k ek hek hb hng hroll
      rw [htr] at h; cases h
      have := hinv k ek hek hb hng hroll
      rw [htr] at this; simp [holdersOf] at this
    | some t => rw [htr] at h; cases h; exact hinv
  | editStrategy w =>
    simp only [step] at h; cases h
    refine bwr_of_same _ _ hinv rfl ?_
    dsimp only
    cases s.tr <;> rfl
  | deleteRo j =>
    simp only [step] at h
    cases he : s.ros[j]? with
    | none => rw [he] at h; cases h; exact hinv
    | some e =>
      rw [he] at h
      dsimp only at h
      split at h
      · cases h; exact hinv
      · split at h
        · cases h; exact hinv
        split at h
        all_goals
          cases h
          intro k ek hek hb hng hroll
          unfold setEntry at hek ⊢
          dsimp only at hek ⊢
          by_cases hkj : k = j
          · subst hkj
            rw [get_set_self _ _ _ _ he] at hek
            cases hek
            first
              | exact hinv k e he hb (by assumption) hroll
              | cases hng
          · rw [get_set_ne _ _ _ _ (fun h => hkj h.symm)] at hek
            exact hinv k ek hek hb hng hroll
  | perturb j w' =>
    simp only [step] at h
    cases he : s.ros[j]? with
    | none => rw [he] at h; cases h; exact hinv
    | some e =>
      rw [he] at h
      dsimp only at h
      split at h
      · rename_i hc
        cases h
        intro k ek hek hb hng hroll
        unfold setEntry at hek ⊢
        dsimp only at hek ⊢
        by_cases hkj : k = j
        · subst hkj
          rw [get_set_self _ _ _ _ he] at hek
          cases hek
          have hsc := hc.2
          unfold sameControl at hsc
          simp only [Bool.and_eq_true, beq_iff_eq] at hsc
          refine hinv k e he hb hng ?_
          rw [← hroll]
          exact rolling_congr _ _ hsc.1.1.1.1 hsc.1.1.1.2
        · rw [get_set_ne _ _ _ _ (fun h => hkj h.symm)] at hek
          exact hinv k ek hek hb hng hroll
      · cases h; exact hinv
  | envNet n => simp only [step] at h; cases h; exact bwr_of_same _ _ hinv rfl rfl

/-- **2 (history form). `bound_while_rolling` (C03)** — along every history (reconciles of any rollout with or without
    API faults on the binding calls, TrafficRouting reconciles, clock, crashes, deletion / creation / edits of the
    TrafficRouting, deletion of rollouts, arbitrary foreign changes to workloads, BatchReleases, specs, sub-statuses and
    network objects): every bound Rollout that is Progressing/InRolling (or Paused) has its finalizer on an existing
    TrafficRouting.  Starting point: any state in which that holds, e.g. no rollout rolling. -/
theorem bound_while_rolling (ls : List Label) (s s' : JS) (h0 : BoundWhileRolling s) (h : run s ls = some s') : BoundWhileRolling s' :=
  run_invariant BoundWhileRolling bwr_step ls s s' h0 h


/-! ### Finalizing means unheld; the second holder keeps the routing alive -/

/-- while the TrafficRouting is Finalizing nobody holds it -/
def FinalizingUnheld (s : JS) : Prop := ∀ t, s.tr = some t → t.phase = .finalizing → t.holders = []

theorem ro_tr_shape (i : Nat) (pre post : Option TRO) (t' : TRO) (hp : post = some t')
    (h1 : addedOnlyWhenOpen i pre post = true) (h2 : othersKept i pre post = true) :
    ∃ t, pre = some t ∧ t'.phase = t.phase ∧ t'.deleting = t.deleting ∧ (∀ j, j ∈ t'.holders → j ∈ t.holders ∨ (j = i ∧ t.phase ≠ .finalizing ∧ t.phase ≠ .terminating ∧ t.deleting = false)) ∧
      (∀ j, j ≠ i → j ∈ t.holders → j ∈ t'.holders) := by
  subst hp
  cases pre with
  | none => simp [othersKept] at h2
  | some t =>
    simp only [othersKept, Bool.and_eq_true, List.all_eq_true, Bool.or_eq_true, beq_iff_eq, List.contains_iff_mem] at h2
    obtain ⟨⟨⟨⟨⟨⟨⟨hd, _⟩, hph⟩, _⟩, _⟩, _⟩, hk1⟩, hk2⟩ := h2
    refine ⟨t, rfl, hph, hd, ?_, ?_⟩
    · intro j hj
      rcases hk2 j hj with h | h
      · subst h
        by_cases hin : j ∈ t.holders
        · exact Or.inl hin
        · right
          unfold addedOnlyWhenOpen at h1
          have c1 : (holdersOf (some t)).contains j = false := by simpa [holdersOf] using hin
          have c2 : (holdersOf (some t')).contains j = true := by simpa [holdersOf] using hj
          rw [c1, c2] at h1
          simp only [Bool.not_false, Bool.and_self, if_true, Bool.and_eq_true, Bool.not_eq_true', bne_iff_ne, ne_eq] at h1
          exact ⟨rfl, h1.1.2, h1.2, h1.1.1⟩
      · exact Or.inl h
    · intro j hji hj
      rcases hk1 j hj with h | h
      · exact absurd h hji
      · exact h

theorem fu_step (s : JS) (l : Label) (s' : JS) (hinv : FinalizingUnheld s) (h : step s l = some s') : FinalizingUnheld s' := by
  cases l with
  | ro j f =>
    cases he : s.ros[j]? with
    | none => simp only [step, he] at h; cases h; exact hinv
    | some e =>
      cases hg : e.gone with
      | true => simp only [step, he, hg, if_true] at h; cases h; exact hinv
      | false =>
        obtain ⟨r, tr', hr, hs'⟩ := step_ro s s' j f e he hg h
        subst hs'
        obtain ⟨a1, a2⟩ := ro_tr_effect _ _ _ _ _ _ _ hr
        intro t' ht' hph
        obtain ⟨t, hpre, e1, _, e3, _⟩ := ro_tr_shape j s.tr tr' t' ht' a1 a2
        have ht := hinv t hpre (e1 ▸ hph)
        cases hh : t'.holders with
        | nil => rfl
        | cons a l =>
          have := e3 a (by rw [hh]; exact List.mem_cons_self)
          rcases this with h1 | ⟨_, h2, _⟩
          · rw [ht] at h1; cases h1
          · exact absurd (e1 ▸ hph) h2
  | tr =>
    cases htr : s.tr with
    | none => rw [step_tr_none s htr] at h; cases h; exact hinv
    | some t =>
      rw [step_tr s t htr] at h; cases h
      intro t' ht' hph
      dsimp only at ht'
      have := stored_some _ _ ht'; subst this
      rw [(core_frame t s.net s.mem).1]
      rcases (core_phase t s.net s.mem).1 hph with h1 | ⟨_, h1⟩
      · exact hinv t htr h1
      · exact h1
  | tick => simp only [step] at h; cases h; exact hinv
  | crash => simp only [step] at h; cases h; exact hinv
  | deleteTR =>
    simp only [step] at h; cases h
    intro t' ht' hph
    dsimp only at ht'
    cases htr : s.tr with
    | none => rw [htr] at ht'; cases ht'
    | some t =>
      rw [htr] at ht'
      simp only [Option.bind_some] at ht'
      have := stored_some _ _ ht'; subst this
      exact hinv t htr hph
  | createTR w g hr =>
    simp only [step] at h
    cases htr : s.tr with
    | none =>
      rw [htr] at h; cases h
      intro t' ht' hph
      cases ht'; cases hph
    | some t => rw [htr] at h; cases h; exact hinv
  | editStrategy w =>
    simp only [step] at h; cases h
    intro t' ht' hph
    dsimp only at ht'
    cases htr : s.tr with
    | none => rw [htr] at ht'; cases ht'
    | some t =>
      rw [htr] at ht'
      cases ht'
      exact hinv t htr hph
  | deleteRo i =>
    simp only [step] at h
    repeat' split at h
    all_goals (cases h; exact hinv)
  | perturb i w' =>
    simp only [step] at h
    repeat' split at h
    all_goals (cases h; exact hinv)
  | envNet n => simp only [step] at h; cases h; exact hinv

/-- **`finalizing_means_unheld`** — along every history: a TrafficRouting in phase Finalizing carries no progressing
    finalizer (it got there unheld, and nobody can join before it is Healthy again) -/
theorem finalizing_means_unheld (ls : List Label) (s s' : JS) (h0 : FinalizingUnheld s) (h : run s ls = some s') : FinalizingUnheld s' :=
  run_invariant FinalizingUnheld fu_step ls s s' h0 h

/-- rollout `j` holds a live TrafficRouting that is not cleaning up -/
def HeldBy (j : Nat) (s : JS) : Prop :=
  ∃ t, s.tr = some t ∧ j ∈ t.holders ∧ t.deleting = false ∧ t.phase ≠ .finalizing ∧ t.phase ≠ .terminating

/-- the labels that are not `j`'s own reconcile and not the deletion of the TrafficRouting -/
def otherThan (j : Nat) : Label → Bool
  | .ro i _ => i != j
  | .deleteTR => false
  | _ => true

theorem stored_live (t : TRO) (h : t.deleting = false) : stored t = some t := by
  unfold stored isGone; simp [h]

/-- **5. `two_rollouts_share` (C05, C19-flavoured), one step** — while rollout `j` holds the TrafficRouting, whatever the
    other rollouts do (bind, run, finish, fail, get deleted), whatever the TrafficRouting controller, clock, crashes or
    foreign edits do: `j` keeps holding it, the object stays live and out of Finalizing / Terminating, and the
    TrafficRouting controller does not withdraw the route. -/
theorem held_step (j : Nat) (s : JS) (l : Label) (s' : JS) (hh : HeldBy j s) (hl : otherThan j l = true) (h : step s l = some s') :
    HeldBy j s' ∧ (l = .tr → withdrawn s.net s'.net = false) := by
  obtain ⟨t, htr, hj, hd, hp1, hp2⟩ := hh
  cases l with
  | ro i f =>
    refine ⟨?_, fun hc => by cases hc⟩
    have hij : j ≠ i := by
      simp only [otherThan, bne_iff_ne, ne_eq] at hl
      exact fun hc => hl hc.symm
    cases he : s.ros[i]? with
    | none => simp only [step, he] at h; cases h; exact ⟨t, htr, hj, hd, hp1, hp2⟩
    | some e =>
      cases hg : e.gone with
      | true => simp only [step, he, hg, if_true] at h; cases h; exact ⟨t, htr, hj, hd, hp1, hp2⟩
      | false =>
        obtain ⟨r, tr', hr, hs'⟩ := step_ro s s' i f e he hg h
        subst hs'
        obtain ⟨a1, a2⟩ := ro_tr_effect _ _ _ _ _ _ _ hr
        have hmem := othersKept_mem i j _ _ a2 hij (by rw [htr]; exact hj)
        cases tr' with
        | none => simp [holdersOf] at hmem
        | some t' =>
          obtain ⟨t0, hpre, e1, e2, _, _⟩ := ro_tr_shape i s.tr (some t') t' rfl a1 a2
          rw [htr] at hpre; cases hpre
          exact ⟨t', rfl, hmem, e2.trans hd, e1 ▸ hp1, e1 ▸ hp2⟩
  | tr =>
    have hnr := held_not_restored s s' h
    rw [step_tr s t htr] at h; cases h
    obtain ⟨f1, f2, _⟩ := core_frame t s.net s.mem
    have hph := core_phase t s.net s.mem
    refine ⟨⟨(trCore t s.net s.mem).t, stored_live _ (f2.trans hd), f1 ▸ hj, f2.trans hd, ?_, ?_⟩, fun _ => ?_⟩
    · intro hc
      rcases hph.1 hc with h1 | ⟨_, h1⟩
      · exact hp1 h1
      · rw [h1] at hj; cases hj
    · intro hc
      rcases hph.2 hc with h1 | h1
      · exact hp2 h1
      · rw [hd] at h1; cases h1
    · unfold heldNotRestored at hnr
      rw [htr] at hnr
      dsimp only at hnr ⊢
      cases hw : withdrawn s.net (trCore t s.net s.mem).net with
      | false => rfl
      | true =>
        rw [hw] at hnr
        simp only [Bool.not_true, Bool.false_or, Bool.or_eq_true, beq_iff_eq] at hnr
        rcases hnr with (h1 | h1) | h1
        · rw [hd] at h1; cases h1
        · exact absurd h1 hp1
        · exact absurd h1 hp2
  | tick => simp only [step] at h; cases h; exact ⟨⟨t, htr, hj, hd, hp1, hp2⟩, fun hc => by cases hc⟩
  | crash => simp only [step] at h; cases h; exact ⟨⟨t, htr, hj, hd, hp1, hp2⟩, fun hc => by cases hc⟩
  | deleteTR => cases hl
  | createTR w g hr =>
    simp only [step, htr] at h; cases h; exact ⟨⟨t, htr, hj, hd, hp1, hp2⟩, fun hc => by cases hc⟩
  | editStrategy w =>
    simp only [step] at h; cases h
    refine ⟨⟨{ t with weight := w }, ?_, hj, hd, hp1, hp2⟩, fun hc => by cases hc⟩
    rw [htr]; rfl
  | deleteRo i =>
    simp only [step] at h
    refine ⟨?_, fun hc => by cases hc⟩
    repeat' split at h
    all_goals (cases h; exact ⟨t, htr, hj, hd, hp1, hp2⟩)
  | perturb i w' =>
    simp only [step] at h
    refine ⟨?_, fun hc => by cases hc⟩
    repeat' split at h
    all_goals (cases h; exact ⟨t, htr, hj, hd, hp1, hp2⟩)
  | envNet n => simp only [step] at h; cases h; exact ⟨⟨t, htr, hj, hd, hp1, hp2⟩, fun hc => by cases hc⟩

/-- **5. `two_rollouts_share` (C05), every history** — from any state in which rollout `j` holds the TrafficRouting:
    along every history made of the other rollouts' reconciles (all of them may finish and take their finalizers off),
    TrafficRouting reconciles, clock, crashes, edits, deletions of rollouts and foreign changes, `j` still holds a live
    TrafficRouting that never entered Finalizing / Terminating.  (After `j` too has let go, `released_means_restored`
    applies: the state after both finished is the restored one.) -/
theorem two_rollouts_share (j : Nat) : ∀ (ls : List Label) (s s' : JS), HeldBy j s → (∀ l ∈ ls, otherThan j l = true) →
    run s ls = some s' → HeldBy j s' := by
  intro ls
  induction ls with
  | nil => intro s s' hh _ h; cases h; exact hh
  | cons l ls ih =>
    intro s s' hh hall h
    unfold run at h
    split at h
    · cases h
    · rename_i s1 h1
      exact ih s1 s' (held_step j s l s1 hh (hall l List.mem_cons_self) h1).1 (fun x hx => hall x (List.mem_cons_of_mem _ hx)) h


/-! ### Released means restored -/

/-- `k` fault-free rounds: the clock moves, the TrafficRouting is reconciled -/
def quiet : Nat → List Label
  | 0 => []
  | k + 1 => .tick :: .tr :: quiet k

/-- the TrafficRouting reports Healthy, nobody holds it, and (if it manages a route at all) no canary route is left -/
def Restored (s : JS) : Prop :=
  ∃ t, s.tr = some t ∧ t.phase = .healthy ∧ t.holders = [] ∧ (t.hasRef = true → s.net.canaryIng = none)

theorem ageExp_eq (e : Exp) : ageExp e = RV.Props.Traffic.tickE e := by cases e <;> rfl
theorem tickMem_eq (m : Mem) : tickMem m = RV.Props.Traffic.tick m := by
  unfold tickMem RV.Props.Traffic.tick; simp [ageExp_eq]

theorem core_unheld_progressing (t : TRO) (n : Net) (m : Mem) (hd : t.deleting = false) (hp : t.phase = .progressing)
    (hh : t.holders = []) :
    (trCore t n m).t.phase = .finalizing ∧ (trCore t n m).net = n ∧ (trCore t n m).mem = m := by
  obtain ⟨del, hf, hs, ph, wt, gr, hr⟩ := t
  simp only at hd hp hh; subst hd; subst hp; subst hh
  cases hf <;> simp [trCore]

theorem core_finalizing (t : TRO) (n : Net) (m : Mem) (hd : t.deleting = false) (hp : t.phase = .finalizing) :
    (trCore t n m).net = (finalisingTrafficRouting (tctx t) n m).net ∧ (trCore t n m).mem = (finalisingTrafficRouting (tctx t) n m).mem ∧
    ((finalisingTrafficRouting (tctx t) n m).err = false → (finalisingTrafficRouting (tctx t) n m).done = true → (trCore t n m).t.phase = .healthy) ∧
    ((finalisingTrafficRouting (tctx t) n m).err = false → (finalisingTrafficRouting (tctx t) n m).done = false → (trCore t n m).t.phase = .finalizing) := by
  obtain ⟨del, hf, hs, ph, wt, gr, hr⟩ := t
  simp only at hd hp; subst hd; subst hp
  have hc : ∀ hf', tctx ⟨false, hf', hs, .finalizing, wt, gr, hr⟩ = tctx ⟨false, hf, hs, .finalizing, wt, gr, hr⟩ := fun _ => rfl
  cases hf
  all_goals
    simp only [trCore, hc, Bool.false_eq_true, not_false_eq_true, not_true_eq_false, and_self, and_false, if_true, if_false, reduceCtorEq]
    split
    · rename_i he; simp [he]
    · split
      · rename_i he hdn; simp_all
      · rename_i he hdn; simp_all

theorem run_quiet_succ (s s1 s2 s' : JS) (k : Nat) (h1 : step s .tick = some s1) (h2 : step s1 .tr = some s2) (h3 : run s2 (quiet k) = some s') :
    run s (quiet (k + 1)) = some s' := by
  show run s (.tick :: .tr :: quiet k) = some s'
  unfold run; rw [h1]; dsimp only
  unfold run; rw [h2]; dsimp only
  exact h3

theorem step_tick (s : JS) :
    step s .tick = some { s with mem := tickMem s.mem, ros := s.ros.map fun e => { e with w := { e.w with ro := tickRo e.w.ro } } } := rfl

/-- one quiet round of an unheld, live TrafficRouting in phase Finalizing -/
theorem fin_round (s : JS) (t : TRO) (htr : s.tr = some t) (hh : t.holders = []) (hd : t.deleting = false) (hp : t.phase = .finalizing) :
    ∃ s2 t2, run s (quiet 1) = some s2 ∧ s2.tr = some t2 ∧ t2.holders = [] ∧ t2.deleting = false ∧ tctx t2 = tctx t ∧ t2.hasRef = t.hasRef ∧
      s2.net = (finalisingTrafficRouting (tctx t) s.net (tickMem s.mem)).net ∧
      s2.mem = (finalisingTrafficRouting (tctx t) s.net (tickMem s.mem)).mem ∧
      ((finalisingTrafficRouting (tctx t) s.net (tickMem s.mem)).err = false → (finalisingTrafficRouting (tctx t) s.net (tickMem s.mem)).done = true → t2.phase = .healthy) ∧
      ((finalisingTrafficRouting (tctx t) s.net (tickMem s.mem)).err = false → (finalisingTrafficRouting (tctx t) s.net (tickMem s.mem)).done = false → t2.phase = .finalizing) := by
  obtain ⟨f1, f2, f3, f4, f5⟩ := core_frame t s.net (tickMem s.mem)
  obtain ⟨c1, c2, c3, c4⟩ := core_finalizing t s.net (tickMem s.mem) hd hp
  let s1 : JS := { s with mem := tickMem s.mem, ros := s.ros.map fun e => { e with w := { e.w with ro := tickRo e.w.ro } } }
  have h2 := step_tr s1 t htr
  refine ⟨_, (trCore t s.net (tickMem s.mem)).t, run_quiet_succ s s1 _ _ 0 (step_tick s) h2 rfl, ?_, f1.trans hh, f2.trans hd, ?_, f5, c1, c2, c3, c4⟩
  · exact stored_live _ (f2.trans hd)
  · unfold tctx; rw [f3, f4, f5]

theorem leftover_le (c : TCtx) (n : Net) (m : Mem) : RV.Props.Traffic.leftover c n m ≤ 9 := by
  unfold RV.Props.Traffic.leftover
  have := RV.Props.Traffic.expW_le_one m.restoreService
  have := RV.Props.Traffic.expW_le_one m.restoreGateway
  have := RV.Props.Traffic.expW_le_one m.removeCanaryService
  split <;> split <;> split <;> omega

theorem run_append (l1 l2 : List Label) : ∀ (s s1 s' : JS), run s l1 = some s1 → run s1 l2 = some s' → run s (l1 ++ l2) = some s' := by
  induction l1 with
  | nil => intro s s1 s' h1 h2; cases h1; exact h2
  | cons l ls ih =>
    intro s s1 s' h1 h2
    show run s (l :: (ls ++ l2)) = some s'
    unfold run at h1
    split at h1
    · cases h1
    · rename_i sa ha
      unfold run
      rw [ha]; dsimp only
      exact ih sa s1 s' h1 h2

theorem quiet_add (a b : Nat) : quiet (a + b) = quiet a ++ quiet b := by
  induction a with
  | zero => simp [quiet]
  | succ a ih =>
    rw [Nat.add_right_comm]
    show Label.tick :: Label.tr :: quiet (a + b) = Label.tick :: Label.tr :: quiet a ++ quiet b
    rw [ih]; rfl

theorem run_append_quiet (s s1 s' : JS) (a b : Nat) (h1 : run s (quiet a) = some s1) (h2 : run s1 (quiet b) = some s') :
    run s (quiet (a + b)) = some s' := by
  rw [quiet_add]; exact run_append _ _ s s1 s' h1 h2

/-- the clean-up of an unheld TrafficRouting converges: from phase Finalizing, at most `leftover + 1` quiet rounds -/
theorem finalizing_converges (b : Nat) : ∀ (s : JS) (t : TRO), s.tr = some t → t.holders = [] → t.deleting = false → t.phase = .finalizing →
    (t.hasRef = true → t.grace ≠ 0 → RV.Props.Traffic.leftover (tctx t) s.net (tickMem s.mem) ≤ b) →
    ∃ k s', k ≤ b + 1 ∧ run s (quiet k) = some s' ∧ Restored s' := by
  induction b with
  | zero =>
    intro s t htr hh hd hp hb
    obtain ⟨s2, t2, hrun, htr2, hh2, hd2, hc2, hr2, hn2, hm2, hdone, hnot⟩ := fin_round s t htr hh hd hp
    have key : (finalisingTrafficRouting (tctx t) s.net (tickMem s.mem)).err = false ∧ (finalisingTrafficRouting (tctx t) s.net (tickMem s.mem)).done = true := by
      by_cases href : t.hasRef = true
      · by_cases hg : t.grace = 0
        · have := RV.Props.Traffic.finalising_immediate (tctx t) s.net (tickMem s.mem) hg
          exact ⟨this.2, this.1⟩
        · obtain ⟨e1, e2⟩ := RV.Props.Traffic.fin_round_progress (tctx t) s.net (tickMem s.mem) href hg (by rw [tickMem_eq]; exact RV.Props.Traffic.tick_noFresh _)
          refine ⟨e1, ?_⟩
          rcases e2 with e2 | e2
          · exact e2
          · have := hb href hg; omega
      · unfold finalisingTrafficRouting; simp [tctx, href]
    refine ⟨1, s2, Nat.le_refl _, hrun, t2, htr2, hdone key.1 key.2, hh2, fun href2 => ?_⟩
    rw [hn2]
    exact RV.Props.TRSM.finalising_done_clean (tctx t) s.net (tickMem s.mem) (show t.hasRef = true by rw [← hr2]; exact href2) key.2
  | succ b ih =>
    intro s t htr hh hd hp hb
    obtain ⟨s2, t2, hrun, htr2, hh2, hd2, hc2, hr2, hn2, hm2, hdone, hnot⟩ := fin_round s t htr hh hd hp
    by_cases hfast : (finalisingTrafficRouting (tctx t) s.net (tickMem s.mem)).err = false ∧ (finalisingTrafficRouting (tctx t) s.net (tickMem s.mem)).done = true
    · refine ⟨1, s2, by omega, hrun, t2, htr2, hdone hfast.1 hfast.2, hh2, fun href2 => ?_⟩
      rw [hn2]
      exact RV.Props.TRSM.finalising_done_clean (tctx t) s.net (tickMem s.mem) (show t.hasRef = true by rw [← hr2]; exact href2) hfast.2
    · -- not done yet: with a ref and a grace period (otherwise the first call is done)
      have href : t.hasRef = true := by
        cases hx : t.hasRef with
        | true => rfl
        | false => exact absurd (by unfold finalisingTrafficRouting; simp [tctx, hx]) hfast
      have hg : t.grace ≠ 0 := by
        intro hc
        have := RV.Props.Traffic.finalising_immediate (tctx t) s.net (tickMem s.mem) hc
        exact hfast ⟨this.2, this.1⟩
      obtain ⟨e1, e2⟩ := RV.Props.Traffic.fin_round_progress (tctx t) s.net (tickMem s.mem) href hg (by rw [tickMem_eq]; exact RV.Props.Traffic.tick_noFresh _)
      have hnd : (finalisingTrafficRouting (tctx t) s.net (tickMem s.mem)).done = false := by
        cases hx : (finalisingTrafficRouting (tctx t) s.net (tickMem s.mem)).done with
        | false => rfl
        | true => exact absurd ⟨e1, hx⟩ hfast
      have hlt : RV.Props.Traffic.leftover (tctx t2) s2.net (tickMem s2.mem) ≤ b := by
        rcases e2 with e2 | e2
        · rw [hnd] at e2; cases e2
        · have hb' := hb href hg
          rw [hc2, hn2, hm2]
          simp only [tickMem_eq] at hb' e2 ⊢
          omega
      obtain ⟨k, s', hk, hrun', hrest⟩ := ih s2 t2 htr2 hh2 hd2 (hnot e1 hnd) (fun _ _ => hlt)
      exact ⟨1 + k, s', by omega, run_append_quiet s s2 s' 1 k hrun hrun', hrest⟩

/-- **1b. `released_means_restored` (C05 / C03)** — for every joint state in which the last holder has let go (a live
    TrafficRouting in phase Progressing or Finalizing without a progressing finalizer; any network, any grace memory, any
    rollouts around it): within at most 11 fault-free rounds (the clock moves, the TrafficRouting is reconciled — the
    round bound is `leftover ≤ 9` of `RV.Props.Traffic.finalising_converges`, plus the round that enters Finalizing and
    the round that reports) the TrafficRouting is Healthy again and the canary route is withdrawn. -/
theorem released_means_restored (s : JS) (t : TRO) (htr : s.tr = some t) (hh : t.holders = []) (hd : t.deleting = false)
    (hp : t.phase = .progressing ∨ t.phase = .finalizing) :
    ∃ k s', k ≤ 11 ∧ run s (quiet k) = some s' ∧ Restored s' := by
  rcases hp with hp | hp
  · -- one round enters Finalizing
    obtain ⟨f1, f2, f3, f4, f5⟩ := core_frame t s.net (tickMem s.mem)
    obtain ⟨c1, c2, c3⟩ := core_unheld_progressing t s.net (tickMem s.mem) hd hp hh
    let s1 : JS := { s with mem := tickMem s.mem, ros := s.ros.map fun e => { e with w := { e.w with ro := tickRo e.w.ro } } }
    have h2 := step_tr s1 t htr
    have hrun1 : run s (quiet 1) = some _ := run_quiet_succ s s1 _ _ 0 (step_tick s) h2 rfl
    obtain ⟨k, s', hk, hrun', hrest⟩ := finalizing_converges 9
      { s1 with tr := stored (trCore t s.net (tickMem s.mem)).t, net := (trCore t s.net (tickMem s.mem)).net, mem := (trCore t s.net (tickMem s.mem)).mem }
      (trCore t s.net (tickMem s.mem)).t (stored_live _ (f2.trans hd))
      (f1.trans hh) (f2.trans hd) c1 (fun _ _ => leftover_le _ _ _)
    exact ⟨1 + k, s', by omega, run_append_quiet s _ s' 1 k hrun1 hrun', hrest⟩
  · obtain ⟨k, s', hk, hrun', hrest⟩ := finalizing_converges 9 s t htr hh hd hp (fun _ _ => leftover_le _ _ _)
    exact ⟨k, s', by omega, hrun', hrest⟩


/-! ## 7. Starting points, the finding, non-vacuity (tests on literals, by kernel evaluation) -/

/-- a state in which no rollout is rolling satisfies `BoundWhileRolling` (e.g. all rollouts Healthy) -/
theorem bwr_init (s : JS) (h : ∀ (i : Nat) (e : Entry), s.ros[i]? = some e → rolling e.w.ro = false) : BoundWhileRolling s := by
  intro i e he _ _ hr
  rw [h i e he] at hr; cases hr

/-- a state without a TrafficRouting, or with one that is not Finalizing, satisfies `FinalizingUnheld` -/
theorem fu_init (s : JS) (h : ∀ t, s.tr = some t → t.phase ≠ .finalizing) : FinalizingUnheld s :=
  fun t ht hp => absurd hp (h t ht)

def exStep : RolloutSM.Step := { replicas := .pct 100, weight := none, pause := .manual }
def exSub (state : RolloutSM.StepState) : RolloutSM.Sub :=
  { curIdx := 1, nextIdx := -1, state := state, finStep := .empty, canaryRev := "v2", stableRev := "v1", podHash := "v2", hash := .same,
    observedRolloutID := "v2", observedGen := 2, lastUpdate := .elapsed }
def exRo (reason : RolloutSM.PReason) (sub : Option RolloutSM.Sub) : RolloutSM.Rollout :=
  { style := .canary, steps := [exStep], paused := false, disabled := false, deleting := false, hasFinalizer := true, hasTraffic := false,
    disableGen := false, rollbackInBatch := false, grace := 3, phase := .progressing, reason := reason, condAge := .elapsed, succeeded := none,
    term := .none, sub := sub }
def exWl : RolloutSM.WL :=
  { consistent := true, inProgressAnno := true, canaryRev := "v2", stableRev := "v1", inRollback := false, replicas := 5, generation := 2 }
def exEntry (reason : RolloutSM.PReason) (sub : Option RolloutSM.Sub) : Entry :=
  { bound := true, gone := false, w := { ro := exRo reason sub, wl := some exWl, br := none, net := default, mem := Mem.empty } }
def exRouted : Net := { stableExists := true, stableSel := none, canarySvc := none, stableIngress := true, canaryIng := some 20 }
def exPlain : Net := { stableExists := true, stableSel := none, canarySvc := none, stableIngress := true, canaryIng := none }
def exTR (phase : TRSM.Phase) (holders : List Nat) : TRO :=
  { deleting := false, hasFinalizer := true, holders := holders, phase := phase, weight := some 20, grace := 3, hasRef := true }

/-- rollout 0 has run through its steps (Progressing / Finalising, cursor empty) and is the only holder of a routed TrafficRouting -/
def exLast : JS := { tr := some (exTR .progressing [0]), net := exRouted, mem := Mem.empty, ros := [exEntry .finalising (some (exSub .completed))] }

/-- **3 (full strength) is FALSE on the unchanged code — finding `completedBeforeRestored`.**  The clause as briefed:
    "the Rollout's own clean-up tasks start only after its finalizer is off the TrafficRouting *and the TrafficRouting
    reports Healthy (or is gone)*".  `finalizeTrafficRouting` removes the finalizer and returns; `doFinalising` goes on
    with the release manager's clean-up in the same reconcile.  Witness: the last holder finishes — after ONE reconcile
    its finalizer is off (`finaliseFinalizerOff` holds), its own clean-up has moved (in-progress annotation stripped, cursor
    at the first task), while the TrafficRouting is still Progressing with the canary route (weight 20) in place.
    The same input is replayed on the real controllers on every run (corpus `trbind/finding-completedBeforeRestored`). -/
theorem finalise_waits_for_restore_full_FALSE :
    (match step exLast (.ro 0 .none), exLast.ros[0]? with
     | some s', some e =>
       (match s'.ros[0]? with
        | some e' =>
          finaliseFinalizerOff 0 (position (roWorld exLast e)) e e' s'.tr &&
          !finaliseWaitsForRestore 0 (position (roWorld exLast e)) e e' s'.tr &&
          guardCompletedBeforeRestored (position (roWorld exLast e)) e e' s'.tr &&
          s'.net.canaryIng == some 20 && (match s'.tr with | some t => t.phase == .progressing && t.holders == [] | none => false)
        | none => false)
     | _, _ => false) = true := by
  decide +kernel

/-- … and `released_means_restored` on that witness: three quiet rounds later the route is withdrawn and the
    TrafficRouting is Healthy (grace period 3 s: Finalizing, withdraw, wait, done) -/
example :
    (run exLast (.ro 0 .none :: quiet 4)).map (fun s => s.net.canaryIng == none &&
      (match s.tr with | some t => t.phase == .healthy && t.holders == [] | none => false)) = some true := by
  decide +kernel

/-- rollouts 0 and 1 share the TrafficRouting; 0 has finished, 1 is rolling -/
def exShared : JS :=
  { tr := some (exTR .progressing [0, 1]), net := exRouted, mem := Mem.empty,
    ros := [exEntry .finalising (some (exSub .completed)), exEntry .inRolling (some (exSub .paused))] }

/-- hypotheses of `two_rollouts_share` / `bound_while_rolling` are met by an ordinary state … -/
example : HeldBy 1 exShared := ⟨exTR .progressing [0, 1], rfl, by decide, rfl, by decide, by decide⟩
example : BoundWhileRolling exShared := by
  intro i e he _ _ hr
  match i, he with
  | 0, he => cases he; revert hr; decide
  | 1, he => cases he; decide
  | (n + 2), he => cases he

/-- … and the first holder finishing leaves the second one holding a routed TrafficRouting (test of `two_rollouts_share`) -/
example :
    (run exShared ([.ro 0 .none] ++ quiet 3)).map (fun s => s.net.canaryIng == some 20 &&
      (match s.tr with | some t => t.phase == .progressing && t.holders == [1] | none => false)) = some true := by
  decide +kernel

/-- a bound rollout in Initializing (verify wait over) facing a Healthy TrafficRouting: the first reconcile adds the
    finalizer and waits, the second one goes on to InRolling (test of `rollout_waits_for_binding`) -/
def exJoin (phase : TRSM.Phase) : JS :=
  { tr := some (exTR phase []), net := exPlain, mem := Mem.empty, ros := [exEntry .initializing none] }

example :
    (run (exJoin .healthy) [.ro 0 .none]).map (fun s =>
      (match s.tr, s.ros[0]? with | some t, some e => t.holders == [0] && e.w.ro.reason == .initializing | _, _ => false)) = some true ∧
    (run (exJoin .healthy) [.ro 0 .none, .ro 0 .none]).map (fun s =>
      (match s.tr, s.ros[0]? with | some t, some e => t.holders == [0] && e.w.ro.reason == .inRolling | _, _ => false)) = some true := by
  constructor <;> decide +kernel

/-- no resurrection: facing a Finalizing TrafficRouting the rollout waits without touching it; with a failing update it
    reports the error; without a TrafficRouting it waits -/
example :
    (run (exJoin .finalizing) [.ro 0 .none, .ro 0 .none]).map (fun s =>
      (match s.tr, s.ros[0]? with | some t, some e => t.holders == [] && e.w.ro.reason == .initializing | _, _ => false)) = some true ∧
    (run { (exJoin .healthy) with tr := none } [.ro 0 .none]).map (fun s =>
      (match s.ros[0]? with | some e => s.tr.isNone && e.w.ro.reason == .initializing | _ => false)) = some true := by
  constructor <;> decide +kernel

/-- a TrafficRouting deleted while a rollout holds it: Terminating, route withdrawn, own finalizer off — and still visible;
    it disappears when the holder lets go (test of `tr_finalizer_guard` / `held_stays_visible`) -/
example :
    (run exLast ([.deleteTR] ++ quiet 4)).map (fun s => s.net.canaryIng == none &&
      (match s.tr with | some t => t.deleting && !t.hasFinalizer && t.holders == [0] && t.phase == .terminating | none => false)) = some true ∧
    (run exLast ([.deleteTR] ++ quiet 4 ++ [.ro 0 .none])).map (fun s => s.tr.isNone) = some true := by
  constructor <;> decide +kernel

end RV.Props.TRBind
