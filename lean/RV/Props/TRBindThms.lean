/-
  # Rollouts bound to a TrafficRouting custom resource — the two-party protocol (C03 / C05 / C06 / C09 / C18)

  Model: `RV.TRBind` (`roReconcile` = `RV.RolloutSM.reconcile` + `handleTrafficRouting` / `finalizeTrafficRouting`;
  `trReconcile` = the TrafficRouting controller over named progressing finalizers; `step` / `run` = their closed loop
  with any number of rollouts sharing one TrafficRouting).  Oracles: `RV.Oracle.TRBind` — the same Bool functions the
  driver evaluates on every transition of the real reconcilers.

  Every theorem quantifies over all joint states (any number of rollouts, any worlds, any network, any grace memory);
  the history theorems are inductions over the label list.
-/
import RV.Lemmas.TRBind
import RV.Props.ReconcileThms
namespace RV.Props.TRBind
open RV.Traffic RV.TRBind RV.Oracle.TRBind RV.Lemmas.TRBind

/-! ## 1. The TrafficRouting controller -/

/-- the TrafficRouting as `RV.TRSM` sees it: the progressing finalizers counted -/
def toTR (t : TRO) : TRSM.TR :=
  { deleting := t.deleting, hasFinalizer := t.hasFinalizer, progressing := t.holders.length, phase := t.phase,
    weight := t.weight, grace := t.grace }

theorem tctx_eq (t : TRO) (h : t.hasRef = true) : tctx t = TRSM.tctx (toTR t) := by
  unfold tctx TRSM.tctx toTR; rw [h]

theorem isGone_eq (t : TRO) : isGone t = TRSM.isGone (toTR t) := by
  unfold isGone TRSM.isGone toTR
  cases t.holders <;> simp

def view (r : TRes) : Option TRO × Net × Mem × Bool × Bool × Bool := (r.tr, r.net, r.mem, r.requeue, r.err, r.finalised)
def viewTRSM (t : TRO) (r : TRSM.Result) : Option TRO × Net × Mem × Bool × Bool × Bool :=
  (if r.gone then none else some { t with hasFinalizer := r.w.tr.hasFinalizer, phase := r.w.tr.phase },
   r.w.net, r.w.mem, r.requeue, r.err, r.finalised)

/-- **no re-modelling drift** — for a TrafficRouting with an `objectRef`, `trReconcile` is `RV.TRSM.reconcile` on
    the counted view: same object afterwards (the names of the progressing finalizers are carried along untouched),
    same network, memory, requeue / error / finalised verdicts -/
theorem trReconcile_eq_TRSM (t : TRO) (n : Net) (m : Mem) (h : t.hasRef = true) :
    view (trReconcile t n m) = viewTRSM t (TRSM.reconcile ⟨toTR t, n, m⟩) := by
  obtain ⟨del, hf, hs, ph, wt, gr, hr⟩ := t
  simp only at h; subst h
  have hc : ∀ hf' ph', tctx ⟨del, hf', hs, ph', wt, gr, true⟩ = TRSM.tctx ⟨del, hf', hs.length, ph', wt, gr⟩ := fun _ _ => rfl
  have hgone : ∀ hf' ph', isGone ⟨del, hf', hs, ph', wt, gr, true⟩ = TRSM.isGone ⟨del, hf', hs.length, ph', wt, gr⟩ := by
    intro hf' ph'; unfold isGone TRSM.isGone; cases hs <;> simp
  cases del <;> cases hf <;> cases ph
  all_goals
    simp only [trReconcile, trCore, TRSM.reconcile, toTR, stored, view, viewTRSM, hc, hgone, Bool.false_eq_true, not_false_eq_true,
      not_true_eq_false, and_self, and_true, and_false, if_true, if_false, reduceCtorEq, true_and]
  all_goals simp only [TRSM.isGone, Bool.false_and, Bool.true_and, Bool.not_true, Bool.not_false, Bool.and_false, Bool.and_true,
      Bool.false_eq_true, if_false]
  all_goals (repeat' split)
  all_goals first | rfl | (simp_all [TRSM.isGone]; done)

/-! ### what one TrafficRouting reconcile can do (every object, network, memory) -/

/-- it never touches the progressing finalizers, the deletion mark or the spec -/
theorem core_frame (t : TRO) (n : Net) (m : Mem) :
    (trCore t n m).t.holders = t.holders ∧ (trCore t n m).t.deleting = t.deleting ∧ (trCore t n m).t.weight = t.weight ∧
    (trCore t n m).t.grace = t.grace ∧ (trCore t n m).t.hasRef = t.hasRef := by
  obtain ⟨del, hf, hs, ph, wt, gr, hr⟩ := t
  cases del <;> cases hf <;> cases ph
  all_goals
    simp only [trCore, Bool.false_eq_true, not_false_eq_true, not_true_eq_false, and_self, and_true, and_false, if_true, if_false, reduceCtorEq]
  all_goals (repeat' split)
  all_goals exact ⟨rfl, rfl, rfl, rfl, rfl⟩

theorem tctx_congr (t : TRO) (hf : Bool) (ph : TRSM.Phase) : tctx { t with hasFinalizer := hf, phase := ph } = tctx t := rfl

/-- the network is written only through `DoTrafficRouting` — by a live, Progressing, held object — or through
    `FinalisingTrafficRouting` — in deletion, or in phase Finalizing / Terminating -/
theorem core_net (t : TRO) (n : Net) (m : Mem) :
    ((trCore t n m).net = n ∧ (trCore t n m).mem = m) ∨
    ((trCore t n m).net = (doTrafficRouting (tctx t) n m).net ∧ (trCore t n m).mem = (doTrafficRouting (tctx t) n m).mem ∧
      t.deleting = false ∧ t.phase = .progressing ∧ t.holders ≠ []) ∨
    ((trCore t n m).net = (finalisingTrafficRouting (tctx t) n m).net ∧ (trCore t n m).mem = (finalisingTrafficRouting (tctx t) n m).mem ∧
      (t.deleting = true ∨ t.phase = .finalizing ∨ t.phase = .terminating)) := by
  obtain ⟨del, hf, hs, ph, wt, gr, hr⟩ := t
  have hc : ∀ hf' ph', tctx ⟨del, hf', hs, ph', wt, gr, hr⟩ = tctx ⟨del, hf, hs, ph, wt, gr, hr⟩ := fun _ _ => rfl
  cases del <;> cases hf <;> cases ph
  all_goals
    simp only [trCore, hc, Bool.false_eq_true, not_false_eq_true, not_true_eq_false, and_self, and_true, and_false, if_true, if_false, reduceCtorEq]
  all_goals (repeat' split)
  all_goals first
    | (left; exact ⟨rfl, rfl⟩)
    | (left; simp; done)
    | (right; right; simp; done)
    | (right; left; simp_all; done)

/-- the controller's own finalizer comes off only in deletion, in a reconcile whose `FinalisingTrafficRouting` reported done -/
theorem core_finalizer (t : TRO) (n : Net) (m : Mem) (h1 : t.hasFinalizer = true) (h2 : (trCore t n m).t.hasFinalizer = false) :
    t.deleting = true ∧ (trCore t n m).finalised = true ∧ (finalisingTrafficRouting (tctx t) n m).done = true ∧
    (trCore t n m).net = (finalisingTrafficRouting (tctx t) n m).net := by
  obtain ⟨del, hf, hs, ph, wt, gr, hr⟩ := t
  simp only at h1; subst h1
  have hc : ∀ hf' ph', tctx ⟨del, hf', hs, ph', wt, gr, hr⟩ = tctx ⟨del, true, hs, ph, wt, gr, hr⟩ := fun _ _ => rfl
  revert h2
  cases del <;> cases ph
  all_goals
    simp only [trCore, hc, Bool.false_eq_true, not_false_eq_true, not_true_eq_false, and_self, and_true, and_false, if_true, if_false, reduceCtorEq]
  all_goals (repeat' split)
  all_goals first
    | (intro h; cases h; done)
    | (intro _; simp_all; done)

/-- phase changes: Finalizing is entered only by an unheld object, Terminating only in deletion; a live held object
    outside those two phases stays outside them -/
theorem core_phase (t : TRO) (n : Net) (m : Mem) :
    ((trCore t n m).t.phase = .finalizing → t.phase = .finalizing ∨ (t.deleting = false ∧ t.holders = [])) ∧
    ((trCore t n m).t.phase = .terminating → t.phase = .terminating ∨ t.deleting = true) := by
  obtain ⟨del, hf, hs, ph, wt, gr, hr⟩ := t
  cases del <;> cases hf <;> cases ph
  all_goals
    simp only [trCore, Bool.false_eq_true, not_false_eq_true, not_true_eq_false, and_self, and_true, and_false, if_true, if_false, reduceCtorEq]
  all_goals (repeat' split)
  all_goals simp_all


/-! ## 2. The two binding functions of the Rollout controller -/

theorem holdersOf_some (t : TRO) : holdersOf (some t) = t.holders := rfl
theorem holdersOf_none : holdersOf none = [] := rfl

theorem othersKept_refl (i : Nat) (tr : Option TRO) : othersKept i tr tr = true := by
  cases tr with
  | none => rfl
  | some t =>
    simp only [othersKept, beq_self_eq_true, Bool.and_true, Bool.true_and, List.all_eq_true, Bool.or_eq_true, beq_iff_eq,
      List.contains_iff_mem, Bool.and_eq_true]
    exact ⟨fun j hj => Or.inr hj, fun j hj => Or.inr hj⟩

theorem stored_some (t t' : TRO) (h : stored t = some t') : t' = t := by
  unfold stored at h; split at h
  · cases h
  · cases h; rfl

theorem stored_none (t : TRO) (h : stored t = none) : t.deleting = true ∧ t.hasFinalizer = false ∧ t.holders = [] := by
  unfold stored at h; split at h
  · rename_i hg
    unfold isGone at hg
    simp only [Bool.and_eq_true, Bool.not_eq_true', List.isEmpty_iff] at hg
    exact ⟨hg.1.1, hg.1.2, hg.2⟩
  · cases h

/-- `handleTrafficRouting` reports done only with the rollout's finalizer on the object, adds it only to a live object
    that is neither Finalizing nor Terminating, and touches nothing else -/
theorem handle_spec (i : Nat) (tr : Option TRO) (f : TFault) :
    ((handleTrafficRouting i tr f).1 = .done → (handleTrafficRouting i tr f).2 = tr ∧ i ∈ holdersOf tr) ∧
    ((handleTrafficRouting i tr f).1 = .err → (handleTrafficRouting i tr f).2 = tr) ∧
    addedOnlyWhenOpen i tr (handleTrafficRouting i tr f).2 = true ∧
    othersKept i tr (handleTrafficRouting i tr f).2 = true := by
  unfold handleTrafficRouting
  split
  · refine ⟨(fun h => by cases h), fun _ => rfl, ?_, othersKept_refl i tr⟩
    unfold addedOnlyWhenOpen; simp
  · cases tr with
    | none =>
      refine ⟨(fun h => by cases h), fun _ => rfl, ?_, rfl⟩
      unfold addedOnlyWhenOpen; simp [holdersOf]
    | some t =>
      dsimp only
      have hsame : addedOnlyWhenOpen i (some t) (some t) = true := by unfold addedOnlyWhenOpen; simp
      split
      · rename_i hm
        exact ⟨fun _ => ⟨rfl, hm⟩, fun _ => rfl, hsame, othersKept_refl i _⟩
      · rename_i hm
        split
        · exact ⟨(fun h => by cases h), fun _ => rfl, hsame, othersKept_refl i _⟩
        · rename_i hph
          split
          · exact ⟨(fun h => by cases h), fun _ => rfl, hsame, othersKept_refl i _⟩
          · split
            · exact ⟨(fun h => by cases h), fun _ => rfl, hsame, othersKept_refl i _⟩
            · rename_i hdel
              refine ⟨(fun h => by cases h), (fun h => by cases h), ?_, ?_⟩
              · unfold addedOnlyWhenOpen
                have h1 : t.phase ≠ .finalizing ∧ t.phase ≠ .terminating := by
                  constructor <;> intro hc <;> exact hph (by simp [hc])
                simp [holdersOf, hdel, h1.1, h1.2]
              · unfold othersKept
                simp only [beq_self_eq_true, Bool.and_true, Bool.true_and, List.all_eq_true, Bool.or_eq_true, beq_iff_eq, List.contains_iff_mem,
                  Bool.and_eq_true, mem_insertSorted]
                exact ⟨fun j hj => Or.inr (Or.inr hj), fun j hj => by rcases hj with h | h; exact Or.inl h; exact Or.inr h⟩

/-- `finalizeTrafficRouting` without an error leaves the rollout's finalizer off the object; with an error it leaves the
    object alone; it touches nothing else -/
theorem finalize_spec (i : Nat) (tr : Option TRO) (f : TFault) :
    ((finalizeTrafficRouting i tr f).1 = false → i ∉ holdersOf (finalizeTrafficRouting i tr f).2) ∧
    ((finalizeTrafficRouting i tr f).1 = true → (finalizeTrafficRouting i tr f).2 = tr) ∧
    addedOnlyWhenOpen i tr (finalizeTrafficRouting i tr f).2 = true ∧
    othersKept i tr (finalizeTrafficRouting i tr f).2 = true := by
  unfold finalizeTrafficRouting
  split
  · refine ⟨(fun h => by cases h), fun _ => rfl, ?_, othersKept_refl i tr⟩
    unfold addedOnlyWhenOpen; simp
  · cases tr with
    | none =>
      refine ⟨(fun _ => by simp [holdersOf]), fun _ => rfl, ?_, rfl⟩
      unfold addedOnlyWhenOpen; simp [holdersOf]
    | some t =>
      dsimp only
      have hsame : addedOnlyWhenOpen i (some t) (some t) = true := by unfold addedOnlyWhenOpen; simp
      split
      · rename_i hm
        split
        · exact ⟨(fun h => by cases h), fun _ => rfl, hsame, othersKept_refl i _⟩
        · have hnot : i ∉ holdersOf (stored { t with holders := t.holders.filter (· ≠ i) }) := by
            cases hst : stored { t with holders := t.holders.filter (· ≠ i) } with
            | none => simp [holdersOf]
            | some t' =>
              have := stored_some _ _ hst; subst this
              simp [holdersOf]
          refine ⟨fun _ => hnot, (fun h => by cases h), ?_, ?_⟩
          · unfold addedOnlyWhenOpen
            have : (holdersOf (stored { t with holders := t.holders.filter (· ≠ i) })).contains i = false := by
              simpa using hnot
            rw [this]; simp
          · cases hst : stored { t with holders := t.holders.filter (· ≠ i) } with
            | none =>
              obtain ⟨h1, h2, h3⟩ := stored_none _ hst
              simp only at h1 h2 h3
              unfold othersKept
              simp only [h1, h2, Bool.not_false, Bool.and_true, Bool.true_and, List.all_eq_true, beq_iff_eq]
              intro j hj
              by_cases hji : j = i
              · exact hji
              · have : j ∈ t.holders.filter (· ≠ i) := by simp [hj, hji]
                rw [h3] at this; cases this
            | some t' =>
              have := stored_some _ _ hst; subst this
              unfold othersKept
              simp only [beq_self_eq_true, Bool.and_true, Bool.true_and, List.all_eq_true, Bool.or_eq_true, beq_iff_eq, List.contains_iff_mem,
                Bool.and_eq_true, mem_remove]
              exact ⟨fun j hj => by by_cases hji : j = i; exact Or.inl hji; exact Or.inr ⟨hj, hji⟩, fun j hj => Or.inr hj.1⟩
      · rename_i hm
        exact ⟨fun _ => hm, fun _ => rfl, hsame, othersKept_refl i _⟩

end RV.Props.TRBind
