import RV.Props.C01
/-!
# C07 — a healthy rollout always finishes; nothing oscillates

Clause (iv): *the update target the controller sets always suffices for its own readiness
criterion* — for every workload kind, size, plan entry and current knob value, the knob in
force after `UpgradeBatch` lets the workload reach the `DesiredUpdatedReplicas` that
`IsBatchReady` will demand.

The unchanged code violates the full statement for CloneSet percent steps whose stable
remainder is below 1 % of the workload (known finding F-C07-1, guard `gPctFallback`); the
full-strength statement is `target_suffices_full_FALSE` below (its negation is proved on a
witness), the proved theorem is `target_suffices_partial`.
-/
namespace RV.Props.C07
open RV.Arith IntOrPct RV.BatchCtx RV.Oracle.Batch RV.Props.C01

/-- (A) outside the guard the desired knob exposes at least `DesiredUpdatedReplicas`. -/
theorem desKnob_suffices (kind : Kind) (R : Int) (e : IntOrPct) (hR : 0 ≤ R)
    (hg : gPctFallback kind R e none = false) :
    desiredOf kind R e none ≤ exposureOf kind (desKnob kind R e none) R := by
  obtain ⟨hs0, hs1, hdes, hal⟩ := plannedDesired_facts R e none hR (by intro k hk; cases hk)
  have hcb0 := calcBatch_nonneg R e hR
  have hcb1 := calcBatch_le R e hR
  generalize hds : desiredStable R e none = ds at *
  cases kind
  case cloneSet =>
    simp only [desiredOf, exposureOf, desKnob, hds, hdes]
    cases e with
    | int n => simp only []; rw [exposure_int ds _ hs0 hs1]; omega
    | pct p =>
      simp only []
      by_cases hR0 : 0 < R
      · apply parsePct_lower ds R (pct p) hR0 hs0 hs1
        intro ⟨h1, h2, h3, h4⟩
        have : gPctFallback .cloneSet R (pct p) none = true := by
          simp [gPctFallback, isPct, hds, h1, h2, h3, h4]
        rw [this] at hg; cases hg
      · have : R = 0 := by omega
        subst this
        have : ds = 0 := by omega
        subst this
        simp only [parsePct, exposure, keptStable, scaledV, scaled]; omega
    | bad =>
      simp only []
      -- a malformed entry plans nothing
      have : ds = R := by
        simp only [allowed, calcBatchReplicas, scaledV, scaled] at hal
        repeat' split at hal
        all_goals omega
      subst this
      simp only [parsePct, ge_iff_le, Int.le_refl, if_true, exposure, keptStable, scaledV, scaled]
      have := ceilDiv100_mul100 ds; omega
  case stsOrdered =>
    simp only [desiredOf, exposureOf, desKnob, hds, hdes]; rw [exposure_int ds _ hs0 hs1]; omega
  case stsUnordered =>
    simp only [desiredOf, exposureOf, desKnob, hds, hdes]; rw [exposure_int ds _ hs0 hs1]; omega
  case daemonSet =>
    simp only [desiredOf, exposureOf, desKnob, hds, hdes]
    split
    · simp only [exposure, keptStable_int]; omega
    · rw [exposure_int ds _ hs0 hs1]; omega
  case depPartition => simp only [desiredOf, exposureOf, desKnob]; omega
  case depCanary => simp only [desiredOf, exposureOf, desKnob, intVal]; omega
  case depBlueGreen =>
    simp only [desiredOf, exposureOf, desKnob]
    have h1 := newRSLimit_le_calcBatch e R hR
    simp only [calcBatchReplicas] at h1
    repeat' split at h1
    all_goals omega
  case csBlueGreen =>
    simp only [desiredOf, exposureOf, desKnob]
    repeat' split
    all_goals omega

/-- (B) when `UpgradeBatch` decides not to write, the current knob already exposes at least
    as much as the desired one would. -/
theorem nowrite_current_suffices (kind : Kind) (c : Ctx)
    (ht : KnobTyped kind c.knobCur) (hd : KnobTyped kind c.knobDes)
    (hcan : kind = .depCanary → c.knobDes = int c.desired)
    (hw : upgrade kind c = none) :
    exposureOf kind c.knobDes c.replicas ≤ exposureOf kind c.knobCur c.replicas := by
  cases kind <;> simp only [upgrade] at hw <;> split at hw <;>
    first
      | (cases hw; done)
      | skip
  case cloneSet =>
    rename_i hle
    simp only [exposureOf, exposure]
    have := keptStable_mono (R := c.replicas) hle
    omega
  case stsOrdered =>
    rename_i hle
    obtain ⟨n, hn⟩ := ht; obtain ⟨m, hm⟩ := hd
    simp only [exposureOf, exposure, keptStable, scaledV, scaled, hn, hm, intVal] at hle ⊢
    omega
  case stsUnordered =>
    rename_i hle
    obtain ⟨n, hn⟩ := ht; obtain ⟨m, hm⟩ := hd
    simp only [exposureOf, exposure, keptStable, scaledV, scaled, hn, hm, intVal] at hle ⊢
    omega
  case daemonSet =>
    rename_i hle
    obtain ⟨n, hn⟩ := ht; obtain ⟨m, hm⟩ := hd
    simp only [exposureOf, exposure, keptStable, scaledV, scaled, hn, hm, intVal] at hle ⊢
    omega
  case depPartition => rename_i hle; simp only [exposureOf]; omega
  case depCanary =>
    rename_i hle
    simp only [exposureOf, hcan rfl]
    have : intVal (int c.desired) = c.desired := rfl
    omega
  case depBlueGreen => rename_i hle; simp only [exposureOf]; omega
  case csBlueGreen => rename_i hle; simp only [exposureOf]; omega


/-- the desired knob of the integer-knob kinds is an integer -/
theorem desKnob_typed (kind : Kind) (R : Int) (e : IntOrPct) (nn : Option Int) :
    KnobTyped kind (desKnob kind R e nn) := by
  cases kind <;> simp only [KnobTyped, desKnob]
  · cases nn <;> exact ⟨_, rfl⟩
  · exact ⟨_, rfl⟩
  · exact ⟨_, rfl⟩
  · exact ⟨_, rfl⟩

/-- **C07.iv (partial: outside known finding F-C07-1)** — for every kind, size, plan entry and
    current knob: after `CalculateBatchContext` + `UpgradeBatch` the knob in force exposes at
    least the `DesiredUpdatedReplicas` the readiness check demands. -/
theorem target_suffices_partial (o : Obs) (e : IntOrPct) (c : Ctx)
    (hR : 0 ≤ o.replicas) (hnn : o.noNeedUpdate = none) (ht : KnobTyped o.kind o.knobCur)
    (he : o.entry = some e) (hc : calcCtx o = .ok c)
    (hg : gPctFallback o.kind o.replicas e none = false) :
    targetSuffices o.kind o.replicas c.knobCur (upgrade o.kind c) c.desired = true := by
  obtain ⟨kind, R, entry, nn, knobCur, upd, updR, ft⟩ := o
  simp only at hR hnn ht he hg
  subst hnn he
  have hc0 := hc
  unfold calcCtx at hc
  simp only [Outcome.ok.injEq] at hc
  have hA := desKnob_suffices kind R e hR hg
  have hcur : KnobTyped kind (curKnob kind knobCur) := by
    revert ht; cases kind <;> simp only [KnobTyped, curKnob] <;> exact id
  apply decide_eq_true
  subst hc
  cases hw : upgrade kind _ with
  | some w =>
    have := upgrade_writes_desired _ _ w hc0 hw
    simp only [effective, Option.getD] at *
    rw [this]; exact hA
  | none =>
    have hB := nowrite_current_suffices kind _ hcur (desKnob_typed _ _ _ _)
      (by intro hk; simp only [hk, desKnob, desiredOf]) hw
    simp only [effective, Option.getD] at *
    omega

/-- The full-strength statement (no guard) is FALSE on the unchanged code: witness
    CloneSet, 101 replicas, step "99%" — partition "1%" keeps 2 stable pods, the readiness
    check demands 100 updated pods of which only 99 can exist. -/
theorem target_suffices_full_FALSE :
    ∃ o e c, 0 ≤ o.replicas ∧ o.noNeedUpdate = none ∧ KnobTyped o.kind o.knobCur ∧ o.entry = some e ∧
      calcCtx o = .ok c ∧ gPctFallback o.kind o.replicas e none = true ∧
      targetSuffices o.kind o.replicas c.knobCur (upgrade o.kind c) c.desired = false := by
  refine ⟨{ kind := .cloneSet, replicas := 101, entry := some (pct 99), noNeedUpdate := none,
            knobCur := pct 100, updated := 0, updatedReady := 0, failureThreshold := none },
          pct 99, _, by decide, rfl, trivial, rfl, rfl, by decide, by decide⟩

/-! non-vacuity of the partial theorem's hypotheses (a test on literals) -/
example : gPctFallback .cloneSet 10 (pct 50) none = false ∧
    calcCtx { kind := .cloneSet, replicas := 10, entry := some (pct 50), noNeedUpdate := none,
              knobCur := pct 100, updated := 0, updatedReady := 0, failureThreshold := none } =
      .ok (Ctx.mk 10 0 0 5 5 (pct 100) (pct 50) none) := ⟨by decide, rfl⟩

end RV.Props.C07
