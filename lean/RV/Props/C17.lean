import RV.Lemmas.DepSync
/-!
# C17 — partition-style Deployment scaling respects partition, surge and availability

`s` ranges over *all* abstract states (any replicas, any int/percent/malformed partition and
fenceposts, any number of old ReplicaSets of any sizes, any status numbers); `post s` is the
state after one `syncDeployment` of the model `RV.DepSync` (tied to the Go code by suite
"depsync").  `inv` is the inductive invariant `I`.  The clause predicates are the `Bool`
functions of `RV.Oracle.C17`, the same ones the driver evaluates on the implementation's output;
every clause is vacuous outside `inScope` (deleting / paused / scaling event: the size *is* being changed).

| clause | theorem(s) |
|---|---|
| `I` holds initially (hypothesis), preserved by sync / environment / every step | `inv_sync`, `inv_env`, `inv_step`, `inv_reach` |
| (i) new RS never raised above `max(new, limit)` | `c17_i_partial` (guard `lowerBound`), `c17_i_lowerBound`, `c17_i_witness`; no old pods: `c17_i0` |
| (ii) old total never below the reserve; raised when below | `c17_ii`, `c17_ii_up` |
| (iii) raising the new RS keeps total ≤ replicas + maxSurge | `c17_iii_partial` (guard `lowerBound`), `c17_iii_lowerBound`, `c17_iii_witness` |
| (iv) availability | `c17_iv_budget`, `c17_iv_partial` (guard `stale`), `c17_iv_witness`, `c17_iv_witness_new` |
| (v) convergence | `c17_v_sync`, `c17_v_env`, `c17_v_progress`, `c17_v_final`, `c17_v_rounds`, `c17_v_fair` |
-/
namespace RV.Props.C17
open RV.Arith RV.DepSync RV.Oracle.C17

/-- **C17 (ii)** a sync never lowers the old ReplicaSets' total below what the partition reserves
    for them: `oldTotal' ≥ min(oldTotal, replicas − max(limit, new'))`. -/
theorem c17_ii (s : State) (h : inv s = true) : clauseII s (post s) = true := by
  unfold clauseII
  cases hsc : inScope s
  · simp
  · simp only [Bool.not_true, Bool.false_or, decide_eq_true_eq]
    obtain ⟨nw, _, _, hc⟩ := post_summary s hsc
    have ro := reconcileOld_facts s s.olds nw (inv_olds s h)
    simp only [oldTotal, newSpec, reserve]
    rcases hc with ⟨rn, hn, ho, _⟩ | ⟨hn, ho, _⟩
    · rw [ho]; omega
    · rw [hn, ho]; simp only [optSpec]; omega


/-- **C17 (ii′)** when the old total is positive but below the reserve and the sync leaves the new
    RS alone, the old total is raised exactly to the reserve (`scaleUpOldReplicaSets`). -/
theorem c17_ii_up (s : State) (h : inv s = true) : clauseIIup s (post s) = true := by
  unfold clauseIIup
  cases hsc : inScope s
  · simp
  · simp only [Bool.true_and, Bool.or_eq_true, Bool.not_eq_true', Bool.and_eq_false_iff,
      decide_eq_false_iff_not, decide_eq_true_eq]
    obtain ⟨nw, h1, h2, hc⟩ := post_summary s hsc
    have ro := reconcileOld_facts s s.olds nw (inv_olds s h)
    have hR := inv_replicas s h
    have hl := limit_bounds s hR
    have hcs := created_size s h
    have tg := newTarget_ge s (sumSpec s.olds) nw.spec hl.2
    simp only [oldTotal, newSpec, reserve]
    rcases hc with ⟨rn, hn, ho, hs, _, _, hne⟩ | ⟨hn, ho, _⟩
    · rw [hn, ho]; simp only [optSpec]
      cases hnew : s.new with
      | none =>
        have := h2 hnew
        dsimp only [optSpec]; omega
      | some r =>
        have := h1 r hnew
        dsimp only [optSpec]; omega
    · rw [hn, ho]; simp only [optSpec]
      cases hnew : s.new with
      | none =>
        have := h2 hnew
        dsimp only [optSpec]; omega
      | some r =>
        have := h1 r hnew
        dsimp only [optSpec]; omega

/-- **C17 (iv, budget)** old pods removed by one sync ≤ unhealthy old pods (cleaned first) plus
    `available − (replicas − maxUnavailable)`. -/
theorem c17_iv_budget (s : State) (h : inv s = true) : clauseIVbudget s (post s) = true := by
  unfold clauseIVbudget
  cases hsc : inScope s
  · simp
  · simp only [Bool.not_true, Bool.false_or, decide_eq_true_eq]
    obtain ⟨nw, h1, h2, hc⟩ := post_summary s hsc
    have ro := reconcileOld_facts s s.olds nw (inv_olds s h)
    have u0 : 0 ≤ unhealthy s.olds := sumBy_nonneg _ _ (fun x _ => by omega)
    simp only [oldTotal, availTotal, minAvailable, unhealthyOld]
    have hu : unhealthy s.olds = sumBy (fun r => max 0 (r.spec - r.avail)) s.olds := rfl
    rcases hc with ⟨rn, hn, ho, _⟩ | ⟨hn, ho, _⟩
    · rw [ho]; omega
    · rw [ho]
      cases hnew : s.new with
      | none => have := h2 hnew; simp only [optAvail]; omega
      | some r => have := h1 r hnew; simp only [optAvail]; omega


/-- **C17 (iv, spent)** with the availability budget computed from the *specs* used up (`old total + available new
    pods ≤ replicas − maxUnavailable`), a sync never lowers the old ReplicaSets — for every state, stale statuses
    included (this is the part of (iv) the unchanged code keeps even there). -/
theorem c17_iv_spent (s : State) (h : inv s = true) : clauseIVspent s (post s) = true := by
  unfold clauseIVspent
  cases hsc : inScope s
  · simp
  · cases hb : decide (oldTotal s + optAvail s.new - minAvailable s ≤ 0)
    · simp
    · simp only [Bool.and_self, Bool.not_true, Bool.false_or, decide_eq_true_eq]
      have hb' : oldTotal s + optAvail s.new - minAvailable s ≤ 0 := by simpa using hb
      obtain ⟨nw, h1, h2, hc⟩ := post_summary s hsc
      simp only [oldTotal, minAvailable] at *
      rcases hc with ⟨rn, hn, ho, _⟩ | ⟨hn, ho, _⟩
      · rw [ho]; exact Int.le_refl _
      · rw [ho]
        apply reconcileOld_spent s s.olds nw (inv_olds s h)
        cases hnew : s.new with
        | none => have := h2 hnew; rw [hnew] at hb'; simp only [optAvail] at hb'; omega
        | some r => have := h1 r hnew; rw [hnew] at hb'; simp only [optAvail] at hb'; omega

/- **C17 (iv), full strength** — `∀ s, inv s → clauseIV s (post s)` — is FALSE for the unchanged code:
   see `c17_iv_witness` (known finding C17-F2, guard `stale`). -/

/-- **C17 (iv), partial** with fresh ReplicaSet statuses (no RS reports more available pods than its
    spec keeps) a sync never leaves fewer than `min(available now, replicas − maxUnavailable)` pods
    available. -/
theorem c17_iv_partial (s : State) (h : inv s = true) (hg : stale s = false) :
    clauseIV s (post s) = true := by
  unfold clauseIV
  cases hsc : inScope s
  · simp
  · simp only [Bool.not_true, Bool.false_or, decide_eq_true_eq]
    obtain ⟨nw, h1, h2, hc⟩ := post_summary s hsc
    have hok := inv_olds s h
    have ro := reconcileOld_facts s s.olds nw hok
    have hR := inv_replicas s h
    have hl := limit_bounds s hR
    have hcs := created_size s h
    have hu := maxUnavailV_bounds s h
    have tg := newTarget_ge s (sumSpec s.olds) nw.spec hl.2
    obtain ⟨f1, f2⟩ := not_stale s hg
    have k1 := kept_eq_avail s.olds f1
    have k0 : 0 ≤ sumBy keptAvail s.olds := by rw [k1]; exact sumAvail_nonneg hok
    simp only [floorAvail, minAvailable]
    rcases hc with ⟨rn, hn, ho, hs, ha, _, hne⟩ | ⟨hn, ho, _⟩
    · rw [hn, ho]
      cases hnew : s.new with
      | none =>
        have := h2 hnew
        simp only [keptAvail]; omega
      | some r =>
        have := h1 r hnew
        have := f2 r hnew
        have := (rsOk_iff r).mp (inv_new s h r hnew)
        simp only [keptAvail]; omega
    · rw [hn, ho]
      cases hnew : s.new with
      | none =>
        have := h2 hnew
        simp only [keptAvail]; omega
      | some r =>
        have := h1 r hnew
        have := f2 r hnew
        simp only [keptAvail]; omega


/- **C17 (i) and (iii), full strength** — `∀ s, inv s → clauseI s (post s)` / `clauseIII s (post s)` — are
   FALSE for the unchanged code: see `c17_i_witness`, `c17_iii_witness` (known findings C17-F1a/b,
   guard `lowerBound`: `NewRSReplicasLowerBound` creates the new RS with 1 replica when maxSurge = 0). -/

/-- **C17 (i), partial** outside the creation lower-bound region: while old pods exist, a sync never
    raises the new RS above `max(current size, partition limit)`. -/
theorem c17_i_partial (s : State) (h : inv s = true) (hg : lowerBoundRegion s = false) :
    clauseI s (post s) = true := by
  unfold clauseI
  cases hsc : inScope s
  · simp
  · simp only [Bool.true_and, Bool.or_eq_true, Bool.not_eq_true', decide_eq_false_iff_not,
      decide_eq_true_eq]
    by_cases hpos : 0 < oldTotal s
    · right
      obtain ⟨nw, h1, h2, hc⟩ := post_summary s hsc
      have hR := inv_replicas s h
      have hl := limit_bounds s hR
      have tl := newTarget_le s (sumSpec s.olds) nw.spec hpos
      simp only [oldTotal, newSpec] at *
      rcases hc with ⟨rn, hn, _, hs, _⟩ | ⟨hn, _⟩
      · rw [hn]
        cases hnew : s.new with
        | none =>
          have := h2 hnew
          have := (created_noLB s h hnew hg).1 hpos
          simp only [optSpec]; omega
        | some r =>
          have := h1 r hnew
          simp only [optSpec]; omega
      · rw [hn]
        cases hnew : s.new with
        | none =>
          have := h2 hnew
          have := (created_noLB s h hnew hg).1 hpos
          simp only [optSpec]; omega
        | some r =>
          have := h1 r hnew
          simp only [optSpec]; omega
    · left; exact hpos

/-- **C17 (i), inside the lower-bound region** the excess is at most one pod: a created new RS has
    at most `max(limit, 1)` replicas (while old pods exist). -/
theorem c17_i_lowerBound (s : State) (h : inv s = true) (hsc : inScope s = true) (hn : s.new = none)
    (hpos : 0 < oldTotal s) : newSpec (post s) ≤ max (limit s) 1 := by
  obtain ⟨nw, h1, h2, hc⟩ := post_summary s hsc
  have hR := inv_replicas s h
  have hl := limit_bounds s hR
  have tl := newTarget_le s (sumSpec s.olds) nw.spec hpos
  have c := created_LB s h
  have := h2 hn
  simp only [oldTotal, newSpec] at *
  simp only [hpos, if_true] at c
  rcases hc with ⟨rn, hn', _, hs, _⟩ | ⟨hn', _⟩
  · rw [hn']; simp only [optSpec]; omega
  · rw [hn']; simp only [optSpec]; omega

/-- **C17 (i′)** with no old pods the new RS is brought to `replicas` (nothing is being rolled). -/
theorem c17_i0 (s : State) (h : inv s = true) : clauseI0 s (post s) = true := by
  unfold clauseI0
  cases hsc : inScope s
  · simp
  · simp only [Bool.true_and, Bool.or_eq_true, Bool.not_eq_true', decide_eq_false_iff_not,
      decide_eq_true_eq]
    by_cases hz : oldTotal s = 0
    · right
      obtain ⟨nw, h1, h2, hc⟩ := post_summary s hsc
      have hR := inv_replicas s h
      have cs := created_size s h
      simp only [oldTotal, newSpec] at *
      have tz := newTarget_zero_old s nw.spec
      rw [hz] at hc
      rcases hc with ⟨rn, hn, _, hs, _⟩ | ⟨hn, _, he⟩
      · rw [hn]; simp only [optSpec]; omega
      · rw [hn]; simp only [optSpec]; omega
    · left; exact hz

/-- **C17 (iii), partial** outside the creation lower-bound region: whenever a sync raises the new
    RS, old total + new size ≤ replicas + maxSurge. -/
theorem c17_iii_partial (s : State) (h : inv s = true) (hg : lowerBoundRegion s = false) :
    clauseIII s (post s) = true := by
  unfold clauseIII
  cases hsc : inScope s
  · simp
  · simp only [Bool.true_and, Bool.or_eq_true, Bool.not_eq_true', decide_eq_false_iff_not,
      decide_eq_true_eq]
    by_cases hup : newSpec s < newSpec (post s)
    · right
      obtain ⟨nw, h1, h2, hc⟩ := post_summary s hsc
      have hs0 := maxSurgeV_nonneg s h
      have ho := sumSpec_nonneg (inv_olds s h)
      simp only [oldTotal, newSpec] at *
      rcases hc with ⟨rn, hn, _, hs, _, _, hne⟩ | ⟨hn, _, he⟩
      · rw [hn] at hup ⊢
        cases hnew : s.new with
        | none =>
          have e := h2 hnew
          have c := (created_noLB s h hnew hg).2
          have cs := created_size s h
          by_cases hlt : nw.spec < newTarget s (sumSpec s.olds) nw.spec
          · have := newTarget_surge s _ _ ho hs0 hlt
            simp only [optSpec]; omega
          · have hR := inv_replicas s h
            have tg := newTarget_ge s (sumSpec s.olds) nw.spec (limit_bounds s hR).2
            rw [hnew] at hup
            simp only [optSpec] at hup ⊢
            omega
        | some r =>
          have e := h1 r hnew
          rw [hnew] at hup
          simp only [optSpec] at hup ⊢
          have := newTarget_surge s (sumSpec s.olds) nw.spec ho hs0 (by omega)
          omega
      · rw [hn] at hup ⊢
        cases hnew : s.new with
        | none =>
          have e := h2 hnew
          have c := (created_noLB s h hnew hg).2
          rw [hnew] at hup
          simp only [optSpec] at hup ⊢
          omega
        | some r =>
          have e := h1 r hnew
          rw [hnew] at hup
          simp only [optSpec] at hup
          omega
    · left; exact hup

/-- **C17 (iii), inside the lower-bound region** the total exceeds `replicas + maxSurge` by at most the
    one pod of the created new RS. -/
theorem c17_iii_lowerBound (s : State) (h : inv s = true) (hsc : inScope s = true) (hn : s.new = none) :
    oldTotal s + newSpec (post s) ≤ max (s.replicas + maxSurgeV s) (oldTotal s + 1) := by
  obtain ⟨nw, h1, h2, hc⟩ := post_summary s hsc
  have hs0 := maxSurgeV_nonneg s h
  have ho := sumSpec_nonneg (inv_olds s h)
  have c := created_LB s h
  have e := h2 hn
  simp only [oldTotal, newSpec] at *
  rcases hc with ⟨rn, hn', _, hs, _, _, hne⟩ | ⟨hn', _, he⟩
  · rw [hn']; simp only [optSpec]
    by_cases hlt : nw.spec < newTarget s (sumSpec s.olds) nw.spec
    · have := newTarget_surge s _ _ ho hs0 hlt; omega
    · have hR := inv_replicas s h
      have tg := newTarget_ge s (sumSpec s.olds) nw.spec (limit_bounds s hR).2
      have cs := created_size s h
      omega
  · rw [hn']; simp only [optSpec]; omega


/-! ## The same clauses spelled out as inequalities (corollaries, for reading) -/

/-- (i) spelled out -/
theorem c17_i_readable (s : State) (h : inv s = true) (hsc : inScope s = true)
    (hg : lowerBoundRegion s = false) (hold : 0 < oldTotal s) :
    newSpec (post s) ≤ max (newSpec s) (limit s) := by
  have := c17_i_partial s h hg
  simpa [clauseI, hsc, hold] using this

/-- (ii) spelled out -/
theorem c17_ii_readable (s : State) (h : inv s = true) (hsc : inScope s = true) :
    min (oldTotal s) (s.replicas - max (limit s) (newSpec (post s))) ≤ oldTotal (post s) := by
  have := c17_ii s h
  simp only [clauseII, hsc, reserve, Bool.not_true, Bool.false_or] at this
  exact of_decide_eq_true this

/-- (iii) spelled out -/
theorem c17_iii_readable (s : State) (h : inv s = true) (hsc : inScope s = true)
    (hg : lowerBoundRegion s = false) (hup : newSpec s < newSpec (post s)) :
    oldTotal s + newSpec (post s) ≤ s.replicas + maxSurgeV s := by
  have := c17_iii_partial s h hg
  simpa [clauseIII, hsc, hup] using this

/-- (iv) spelled out: pods that are available and kept by the specs never drop below
    `min(what was kept, replicas − maxUnavailable)` -/
theorem c17_iv_readable (s : State) (h : inv s = true) (hsc : inScope s = true) (hg : stale s = false) :
    min (floorAvail s) (s.replicas - maxUnavailV s) ≤ floorAvail (post s) := by
  have := c17_iv_partial s h hg
  simp only [clauseIV, hsc, minAvailable, Bool.not_true, Bool.false_or] at this
  exact of_decide_eq_true this

/-! ## The invariant `I` -/

/-- The closed system: controller syncs alternate with environment steps and user actions. -/
inductive Step : State → State → Prop
  /-- one `syncDeployment` -/
  | sync (s : State) : Step s (post s)
  /-- ReplicaSet controller / kubelet: pods move toward spec, availability changes (also flaps) -/
  | env {s t : State} : EnvStep s t → Step s t
  /-- scale event -/
  | scale (s : State) (n : Int) : 0 ≤ n → Step s { s with replicas := n }
  /-- partition change (raise or otherwise) -/
  | partition (s : State) (p : IntOrPct) : Step s { s with partition := p }
  /-- pause / resume -/
  | pause (s : State) (b : Bool) : Step s { s with paused := b }
  /-- new revision: the current new RS becomes an old one -/
  | newRevision (s : State) : Step s { s with new := none, olds := s.olds ++ s.new.toList }
  /-- rollback: an old RS becomes the new one -/
  | rollback (s : State) (l₁ l₂ : List RS) (r : RS) : s.olds = l₁ ++ r :: l₂ →
      Step s { s with new := some r, olds := l₁ ++ l₂ ++ s.new.toList }

inductive Reach (s₀ : State) : State → Prop
  | refl : Reach s₀ s₀
  | step {s t : State} : Reach s₀ s → Step s t → Reach s₀ t

/-- **`I` is preserved by a sync** — every path of `syncDeployment`: rolling, scaling, status only. -/
theorem inv_sync (s : State) (h : inv s = true) : inv (post s) = true := inv_post s h

/-- **`I` is preserved by the environment.** -/
theorem inv_env (s t : State) (h : inv s = true) (he : EnvStep s t) : inv t = true := env_inv s t h he

/-- **`I` is inductive**: preserved by every step of the closed system. -/
theorem inv_step (s t : State) (h : inv s = true) (hs : Step s t) : inv t = true := by
  obtain ⟨h1, h2, h3, h4, h5, h6, h7, h8⟩ := inv_elim s h
  obtain ⟨q1, q2⟩ := Q_all_of_inv s h
  cases hs with
  | sync => exact inv_post s h
  | env he => exact env_inv s t h he
  | scale n hn => exact inv_intro _ hn h2 h3 h4 h5 h6 h7 h8
  | partition p => exact inv_intro _ h1 h2 h3 h4 h5 h6 h7 h8
  | pause b => exact inv_intro _ h1 h2 h3 h4 h5 h6 h7 h8
  | newRevision =>
    have hq : ∀ r ∈ s.olds ++ s.new.toList, Q r := append_all q1 (toList_Q q2)
    exact inv_intro _ h1 h2 h3 (fun r hr => (hq r hr).1) (fun r hr => by cases hr) h6
      (fun r hr => (hq r hr).2) (fun r hr => by cases hr)
  | rollback l₁ l₂ r he =>
    have hr : Q r := q1 r (by rw [he]; simp)
    have hq : ∀ x ∈ l₁ ++ l₂ ++ s.new.toList, Q x := by
      apply append_all _ (toList_Q q2)
      intro x hx
      apply q1 x
      rw [he]
      rcases List.mem_append.mp hx with e | e
      · simp [e]
      · simp [e]
    exact inv_intro _ h1 h2 h3 (fun x hx => (hq x hx).1)
      (fun x hx => by simp only [Option.some.injEq] at hx; rw [← hx]; exact hr.1) h6
      (fun x hx => (hq x hx).2)
      (fun x hx => by simp only [Option.some.injEq] at hx; rw [← hx]; exact hr.2)

/-- `I` holds in every reachable state. -/
theorem inv_reach (s₀ s : State) (h : inv s₀ = true) (hr : Reach s₀ s) : inv s = true := by
  induction hr with
  | refl => exact h
  | step _ hs ih => exact inv_step _ _ ih hs

/-- Safety of every reachable sync: all unconditional clauses hold for every sync from every state
    reachable from a state satisfying `I`. -/
theorem c17_reachable (s₀ s : State) (h : inv s₀ = true) (hr : Reach s₀ s) :
    clauseII s (post s) = true ∧ clauseIIup s (post s) = true ∧ clauseI0 s (post s) = true ∧
    clauseIVbudget s (post s) = true ∧
    (lowerBoundRegion s = false → clauseI s (post s) = true ∧ clauseIII s (post s) = true) ∧
    (stale s = false → clauseIV s (post s) = true) := by
  have hi := inv_reach s₀ s h hr
  exact ⟨c17_ii s hi, c17_ii_up s hi, c17_i0 s hi, c17_iv_budget s hi,
    fun hg => ⟨c17_i_partial s hi hg, c17_iii_partial s hi hg⟩, fun hg => c17_iv_partial s hi hg⟩

/-! ## (v) Convergence when the partition covers all replicas -/

/-- **C17 (v), variant never increases**: under `live` (I, rolling path, covering partition, live
    fenceposts) a sync does not increase the variant, and `live` is kept. -/
theorem c17_v_sync (s : State) (h : live s = true) :
    live (post s) = true ∧ variant (post s) ≤ variant s := by
  obtain ⟨i0, sc0, cv0, _⟩ := live_elim _ h
  exact ⟨live_post s h, (variant_post_le s i0 sc0 cv0).1⟩

/-- **C17 (v), environment steps** keep `live` and the variant. -/
theorem c17_v_env (s t : State) (h : live s = true) (he : EnvStep s t) :
    live t = true ∧ variant t = variant s := ⟨env_live s t h he, env_variant s t he⟩

/-- **C17 (v), progress**: from a settled, non-final state a sync strictly decreases the variant —
    there is no stuck non-final state. -/
theorem c17_v_progress (s : State) (h : live s = true) (hs : settled s = true) (hf : final s = false) :
    variant (post s) < variant s := by
  obtain ⟨i0, sc0, cv0, l0⟩ := live_elim _ h
  exact variant_post_lt s i0 sc0 cv0 l0 hs hf

/-- the variant is 0 exactly in the final states (new RS = replicas, old RSs = 0) -/
theorem c17_v_final (s : State) (h : inv s = true) : variant s = 0 ↔ final s = true :=
  variant_zero_iff s h

/-- **C17 (v), healthy schedule**: alternating syncs with a ReplicaSet controller that catches up
    (`round`), the Deployment reaches new = replicas ∧ old = 0 within `variant s + 1` rounds. -/
theorem c17_v_rounds (s : State) (h : live s = true) : final (rounds (variant s + 1) s) = true := by
  obtain ⟨l1, s1, v1⟩ := live_round s h
  exact rounds_converge (variant s) (round s) l1 s1 v1

/-- a run of the closed system restricted to syncs and environment steps -/
def IsRun (σ : Nat → State) : Prop := ∀ i, σ (i + 1) = post (σ i) ∨ EnvStep (σ i) (σ (i + 1))
/-- fairness + healthy environment: again and again the ReplicaSet controller catches up and a sync
    runs on the settled state -/
def Fair (σ : Nat → State) : Prop := ∀ i, ∃ j, i ≤ j ∧ settled (σ j) = true ∧ σ (j + 1) = post (σ j)

/-- **C17 (v), any fair schedule**: every fair run from a `live` state reaches a final state. -/
theorem c17_v_fair (σ : Nat → State) (h0 : live (σ 0) = true) (hrun : IsRun σ) (hfair : Fair σ) :
    ∃ k, final (σ k) = true := by
  have hlive : ∀ i, live (σ i) = true := by
    intro i
    induction i with
    | zero => exact h0
    | succ i ih =>
      rcases hrun i with e | e
      · rw [e]; exact live_post _ ih
      · exact env_live _ _ ih e
  have hstep : ∀ i, variant (σ (i + 1)) ≤ variant (σ i) := by
    intro i
    rcases hrun i with e | e
    · rw [e]; exact (c17_v_sync _ (hlive i)).2
    · rw [env_variant _ _ e]; exact Nat.le_refl _
  have hmono : ∀ i j, i ≤ j → variant (σ j) ≤ variant (σ i) := by
    intro i j hij
    induction j with
    | zero => have : i = 0 := by omega
              rw [this]; exact Nat.le_refl _
    | succ j ih =>
      by_cases he : i = j + 1
      · rw [he]; exact Nat.le_refl _
      · have := ih (by omega); have := hstep j; omega
  have key : ∀ n i, variant (σ i) ≤ n → ∃ k, final (σ k) = true := by
    intro n
    induction n with
    | zero =>
      intro i hv
      exact ⟨i, (variant_zero_iff _ (live_elim _ (hlive i)).1).mp (by omega)⟩
    | succ n ih =>
      intro i hv
      obtain ⟨j, hij, hs, hp⟩ := hfair i
      cases hf : final (σ j) with
      | true => exact ⟨j, hf⟩
      | false =>
        have h1 := c17_v_progress _ (hlive j) hs hf
        have h2 := hmono i j hij
        rw [← hp] at h1
        exact ih (j + 1) (by omega)
  exact key _ 0 (Nat.le_refl _)


/-! ## Witnesses of the known findings (negation of the full-strength clauses) and non-vacuity -/

/-- an RS named by one byte, annotations in line with `R` replicas and `m` max replicas -/
def rs (idx : Int) (c : Nat) (created revision spec pods avail R m : Int) : RS :=
  { idx := idx, name := [c], created := created, revision := revision, spec := spec, pods := pods,
    avail := avail, desired := some R, maxAnno := some m }

/-- finding C17-F1: 4 replicas, partition 0, maxSurge 0, maxUnavailable 1, one full old RS, no new RS yet -/
def wLowerBound : State :=
  { replicas := 4, partition := .int 0, rolling := true, maxSurge := some (.int 0),
    maxUnavailable := some (.int 1), paused := false, deleting := false, statusReplicas := 4, now := 3,
    new := none, olds := [rs 0 97 0 1 4 4 4 4 4] }

/-- **witness (i)**: the new RS is created with 1 replica although the partition allows 0
    (real code: corpus/depsync/finding-1-lowerbound.jsonl). -/
theorem c17_i_witness :
    inv wLowerBound = true ∧ lowerBoundRegion wLowerBound = true ∧
    clauseI wLowerBound (post wLowerBound) = false := by decide

/-- **witness (iii)**: …and the total becomes replicas + maxSurge + 1. -/
theorem c17_iii_witness :
    inv wLowerBound = true ∧ lowerBoundRegion wLowerBound = true ∧
    clauseIII wLowerBound (post wLowerBound) = false := by decide

/-- finding C17-F2 (old RS): 4 replicas, maxUnavailable 1, maxSurge 2, partition 100%; old RS `b` was
    scaled 4 → 2 earlier but its status still reports 4 available pods; old RS `a` has 3 unhealthy pods
    that use up the clean-up budget, so the clean-up never reaches (and never rejects) `b` -/
def wStale : State :=
  { replicas := 4, partition := .pct 100, rolling := true, maxSurge := some (.int 2),
    maxUnavailable := some (.int 1), paused := false, deleting := false, statusReplicas := 10, now := 5,
    new := some (rs (-1) 110 2 3 1 1 1 4 6),
    olds := [rs 0 97 0 1 3 3 0 4 6, rs 1 98 1 2 2 4 4 4 6] }

/-- **witness (iv)**: 3 of the available pods are kept by the specs before the sync, 1 after it,
    below replicas − maxUnavailable = 3 (real code: corpus/depsync/finding-2-stale.jsonl, line 1). -/
theorem c17_iv_witness :
    inv wStale = true ∧ stale wStale = true ∧ clauseIV wStale (post wStale) = false ∧
    floorAvail wStale = 3 ∧ minAvailable wStale = 3 ∧ floorAvail (post wStale) = 1 := by decide

/-- finding C17-F2 (new RS): the new RS was scaled to 0 but still reports 2 available pods -/
def wStaleNew : State :=
  { replicas := 4, partition := .int 5, rolling := true, maxSurge := some (.int 0),
    maxUnavailable := some (.int 1), paused := false, deleting := false, statusReplicas := 6, now := 3,
    new := some (rs (-1) 110 1 2 0 2 2 4 4),
    olds := [rs 0 97 0 1 4 4 4 4 4] }

/-- **witness (iv), second form** (corpus/depsync/finding-2-stale.jsonl, line 2): 4 kept before, 1 after. -/
theorem c17_iv_witness_new :
    inv wStaleNew = true ∧ stale wStaleNew = true ∧ clauseIV wStaleNew (post wStaleNew) = false ∧
    floorAvail wStaleNew = 4 ∧ floorAvail (post wStaleNew) = 1 := by decide

/-- non-vacuity of the partial theorems and of the scope: an ordinary mid-rollout state (10 replicas,
    partition 5, surge 2, unavailable 2; old 6+2, new 2) is in scope, satisfies `I`, is outside both
    guards, and the sync really acts on it (new RS 2 → 4). -/
def wMid : State :=
  { replicas := 10, partition := .int 5, rolling := true, maxSurge := some (.int 2),
    maxUnavailable := some (.int 2), paused := false, deleting := false, statusReplicas := 10, now := 5,
    new := some (rs (-1) 110 2 3 2 2 2 10 12),
    olds := [rs 0 97 0 1 6 6 6 10 12, rs 1 98 1 2 2 2 2 10 12] }

example : inv wMid = true ∧ inScope wMid = true ∧ lowerBoundRegion wMid = false ∧ stale wMid = false ∧
    0 < oldTotal wMid ∧ newSpec (post wMid) = 4 ∧ oldTotal (post wMid) = 8 := by decide

/-- non-vacuity of (ii′): old total 3 below the reserve 5 → raised to 5 -/
def wLow : State :=
  { wMid with olds := [rs 0 97 0 1 2 2 2 10 12, rs 1 98 1 2 1 1 1 10 12],
              new := some (rs (-1) 110 2 3 5 5 5 10 12) }
example : inv wLow = true ∧ inScope wLow = true ∧ oldTotal wLow = 3 ∧ reserve wLow (newSpec wLow) = 5 ∧
    oldTotal (post wLow) = 5 := by decide

/-- non-vacuity of (iv): the rolling scale-down really removes available old pods, down to the floor:
    12 available, replicas − maxUnavailable = 8, unhealthy pod cleaned first -/
def wDown : State :=
  { wMid with maxSurge := some (.int 2), partition := .pct 100,
              olds := [rs 0 97 0 1 6 6 5 10 12, rs 1 98 1 2 4 4 4 10 12],
              new := some (rs (-1) 110 2 3 2 2 2 10 12) }
example : inv wDown = true ∧ inScope wDown = true ∧ stale wDown = false ∧ floorAvail wDown = 11 ∧
    minAvailable wDown = 8 ∧ oldTotal (post wDown) = 6 ∧ floorAvail (post wDown) = 8 := by decide

/-- non-vacuity of (v): a live, settled, non-final state; one sync lowers the variant; the healthy
    schedule finishes within `variant + 1` rounds (tests on literals, not the ∀ claim). -/
def wCover : State :=
  { replicas := 3, partition := .pct 100, rolling := true, maxSurge := some (.int 1),
    maxUnavailable := some (.int 0), paused := false, deleting := false, statusReplicas := 3, now := 5,
    new := some (rs (-1) 110 2 3 0 0 0 3 4),
    olds := [rs 0 97 0 1 2 2 2 3 4, rs 1 98 1 2 1 1 1 3 4] }
example : live wCover = true ∧ settled wCover = true ∧ final wCover = false ∧ variant wCover = 6 ∧
    variant (post wCover) = 5 := by decide
set_option maxRecDepth 8000 in
example : final (rounds 7 wCover) = true ∧ newSpec (rounds 7 wCover) = 3 ∧ oldTotal (rounds 7 wCover) = 0 := by
  decide

end RV.Props.C17
