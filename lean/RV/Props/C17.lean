import RV.Lemmas.DepSync
namespace RV.Props.C17
open RV.Arith RV.DepSync RV.Oracle.C17
theorem placeholder : (1 : Nat) = 1 := rfl
end RV.Props.C17
