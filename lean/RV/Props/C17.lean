import RV.Lemmas.DepSync
/-!
# C17 — partition-style Deployment scaling respects partition, surge and availability

`s` ranges over *all* abstract states (any replicas, any int/percent/malformed partition and
fenceposts, any number of old ReplicaSets of any sizes, any status numbers); `post s` is the
state after one `syncDeployment` of the model `RV.DepSync` (tied to the Go code by suite
"depsync").  `inv` is the inductive invariant `I`.  The clause predicates are the `Bool`
functions of `RV.Oracle.C17`, the same ones the driver evaluates on the implementation's output.
-/
namespace RV.Props.C17
open RV.Arith RV.DepSync RV.Oracle.C17

/-- **C17 (ii)** a sync never lowers the old ReplicaSets' total below what the partition reserves
    for them: `oldTotal' ≥ min(oldTotal, replicas − max(limit, new'))`. -/
theorem c17_ii (s : State) (h : inv s = true) : clauseII s (post s) = true := by
  unfold clauseII
  cases hsc : inScope s
  · simp
  · simp only [Bool.not_true, Bool.false_or, decide_eq_true_eq]
    obtain ⟨nw, _, _, hc⟩ := post_summary s hsc
    have ro := reconcileOld_facts s s.olds nw (inv_olds s h)
    simp only [oldTotal, newSpec, reserve]
    rcases hc with ⟨rn, hn, ho, _⟩ | ⟨hn, ho, _⟩
    · rw [ho]; omega
    · rw [hn, ho]; simp only [optSpec]; omega


/-- **C17 (ii′)** when the old total is positive but below the reserve and the sync leaves the new
    RS alone, the old total is raised exactly to the reserve (`scaleUpOldReplicaSets`). -/
theorem c17_ii_up (s : State) (h : inv s = true) : clauseIIup s (post s) = true := by
  unfold clauseIIup
  cases hsc : inScope s
  · simp
  · simp only [Bool.true_and, Bool.or_eq_true, Bool.not_eq_true', Bool.and_eq_false_iff,
      decide_eq_false_iff_not, decide_eq_true_eq]
    obtain ⟨nw, h1, h2, hc⟩ := post_summary s hsc
    have ro := reconcileOld_facts s s.olds nw (inv_olds s h)
    have hR := inv_replicas s h
    have hl := limit_bounds s hR
    have hcs := created_size s h
    have tg := newTarget_ge s (sumSpec s.olds) nw.spec hl.2
    simp only [oldTotal, newSpec, reserve]
    rcases hc with ⟨rn, hn, ho, hs, _, _, hne⟩ | ⟨hn, ho, _⟩
    · rw [hn, ho]; simp only [optSpec]
      cases hnew : s.new with
      | none =>
        have := h2 hnew
        simp only [optSpec]; omega
      | some r =>
        have := h1 r hnew
        simp only [optSpec]; omega
    · rw [hn, ho]; simp only [optSpec]
      cases hnew : s.new with
      | none =>
        have := h2 hnew
        simp only [optSpec]; omega
      | some r =>
        have := h1 r hnew
        simp only [optSpec]; omega

/-- **C17 (iv, budget)** old pods removed by one sync ≤ unhealthy old pods (cleaned first) plus
    `available − (replicas − maxUnavailable)`. -/
theorem c17_iv_budget (s : State) (h : inv s = true) : clauseIVbudget s (post s) = true := by
  unfold clauseIVbudget
  cases hsc : inScope s
  · simp
  · simp only [Bool.not_true, Bool.false_or, decide_eq_true_eq]
    obtain ⟨nw, h1, h2, hc⟩ := post_summary s hsc
    have ro := reconcileOld_facts s s.olds nw (inv_olds s h)
    have u0 : 0 ≤ unhealthy s.olds := sumBy_nonneg _ _ (fun x _ => by omega)
    simp only [oldTotal, availTotal, minAvailable, unhealthyOld]
    have hu : unhealthy s.olds = sumBy (fun r => max 0 (r.spec - r.avail)) s.olds := rfl
    rcases hc with ⟨rn, hn, ho, _⟩ | ⟨hn, ho, _⟩
    · rw [ho]; omega
    · rw [ho]
      cases hnew : s.new with
      | none => have := h2 hnew; simp only [optAvail]; omega
      | some r => have := h1 r hnew; simp only [optAvail]; omega


/-- `stale` unfolded -/
theorem not_stale (s : State) (h : stale s = false) :
    (∀ r ∈ s.olds, r.avail ≤ r.spec) ∧ (∀ r, s.new = some r → r.avail ≤ r.spec) := by
  simp only [stale, List.any_eq_false, List.mem_append, decide_eq_true_eq, Int.not_lt] at h
  refine ⟨fun r hr => ?_, fun r hr => ?_⟩
  · have := h r (Or.inl hr); omega
  · have := h r (Or.inr (by simp [hr])); omega

/- **C17 (iv), full strength** — `∀ s, inv s → clauseIV s (post s)` — is FALSE for the unchanged code:
   see `c17_iv_witness` (known finding C17-F2, guard `stale`). -/

/-- **C17 (iv), partial** with fresh ReplicaSet statuses (no RS reports more available pods than its
    spec keeps) a sync never leaves fewer than `min(available now, replicas − maxUnavailable)` pods
    available. -/
theorem c17_iv_partial (s : State) (h : inv s = true) (hg : stale s = false) :
    clauseIV s (post s) = true := by
  unfold clauseIV
  cases hsc : inScope s
  · simp
  · simp only [Bool.not_true, Bool.false_or, decide_eq_true_eq]
    obtain ⟨nw, h1, h2, hc⟩ := post_summary s hsc
    have hok := inv_olds s h
    have ro := reconcileOld_facts s s.olds nw hok
    have hR := inv_replicas s h
    have hl := limit_bounds s hR
    have hcs := created_size s h
    have hu := maxUnavailV_bounds s h
    have tg := newTarget_ge s (sumSpec s.olds) nw.spec hl.2
    obtain ⟨f1, f2⟩ := not_stale s hg
    have k1 := kept_eq_avail s.olds f1
    have k0 : 0 ≤ sumBy keptAvail s.olds := by rw [k1]; exact sumAvail_nonneg hok
    simp only [floorAvail, minAvailable]
    rcases hc with ⟨rn, hn, ho, hs, ha, _, hne⟩ | ⟨hn, ho, _⟩
    · rw [hn, ho]
      cases hnew : s.new with
      | none =>
        have := h2 hnew
        simp only [keptAvail]; omega
      | some r =>
        have := h1 r hnew
        have := f2 r hnew
        have := (rsOk_iff r).mp (inv_new s h r hnew)
        simp only [keptAvail]; omega
    · rw [hn, ho]
      cases hnew : s.new with
      | none =>
        have := h2 hnew
        simp only [keptAvail]; omega
      | some r =>
        have := h1 r hnew
        have := f2 r hnew
        simp only [keptAvail]; omega


/- **C17 (i) and (iii), full strength** — `∀ s, inv s → clauseI s (post s)` / `clauseIII s (post s)` — are
   FALSE for the unchanged code: see `c17_i_witness`, `c17_iii_witness` (known findings C17-F1a/b,
   guard `lowerBound`: `NewRSReplicasLowerBound` creates the new RS with 1 replica when maxSurge = 0). -/

/-- **C17 (i), partial** outside the creation lower-bound region: while old pods exist, a sync never
    raises the new RS above `max(current size, partition limit)`. -/
theorem c17_i_partial (s : State) (h : inv s = true) (hg : lowerBoundRegion s = false) :
    clauseI s (post s) = true := by
  unfold clauseI
  cases hsc : inScope s
  · simp
  · simp only [Bool.true_and, Bool.or_eq_true, Bool.not_eq_true', decide_eq_false_iff_not,
      decide_eq_true_eq]
    by_cases hpos : 0 < oldTotal s
    · right
      obtain ⟨nw, h1, h2, hc⟩ := post_summary s hsc
      have hR := inv_replicas s h
      have hl := limit_bounds s hR
      have tl := newTarget_le s (sumSpec s.olds) nw.spec hpos
      simp only [oldTotal, newSpec] at *
      rcases hc with ⟨rn, hn, _, hs, _⟩ | ⟨hn, _⟩
      · rw [hn]
        cases hnew : s.new with
        | none =>
          have := h2 hnew
          have := (created_noLB s h hnew hg).1 hpos
          simp only [optSpec]; omega
        | some r =>
          have := h1 r hnew
          simp only [optSpec]; omega
      · rw [hn]
        cases hnew : s.new with
        | none =>
          have := h2 hnew
          have := (created_noLB s h hnew hg).1 hpos
          simp only [optSpec]; omega
        | some r =>
          have := h1 r hnew
          simp only [optSpec]; omega
    · left; exact hpos

/-- **C17 (i), inside the lower-bound region** the excess is at most one pod: a created new RS has
    at most `max(limit, 1)` replicas (while old pods exist). -/
theorem c17_i_lowerBound (s : State) (h : inv s = true) (hsc : inScope s = true) (hn : s.new = none)
    (hpos : 0 < oldTotal s) : newSpec (post s) ≤ max (limit s) 1 := by
  obtain ⟨nw, h1, h2, hc⟩ := post_summary s hsc
  have hR := inv_replicas s h
  have hl := limit_bounds s hR
  have tl := newTarget_le s (sumSpec s.olds) nw.spec hpos
  have c := created_LB s h
  have := h2 hn
  simp only [oldTotal, newSpec] at *
  simp only [hpos, if_true] at c
  rcases hc with ⟨rn, hn', _, hs, _⟩ | ⟨hn', _⟩
  · rw [hn']; simp only [optSpec]; omega
  · rw [hn']; simp only [optSpec]; omega

/-- **C17 (i′)** with no old pods the new RS is brought to `replicas` (nothing is being rolled). -/
theorem c17_i0 (s : State) (h : inv s = true) : clauseI0 s (post s) = true := by
  unfold clauseI0
  cases hsc : inScope s
  · simp
  · simp only [Bool.true_and, Bool.or_eq_true, Bool.not_eq_true', decide_eq_false_iff_not,
      decide_eq_true_eq]
    by_cases hz : oldTotal s = 0
    · right
      obtain ⟨nw, h1, h2, hc⟩ := post_summary s hsc
      have hR := inv_replicas s h
      have cs := created_size s h
      simp only [oldTotal, newSpec] at *
      have tz := newTarget_zero_old s nw.spec
      rw [hz] at hc
      rcases hc with ⟨rn, hn, _, hs, _⟩ | ⟨hn, _, he⟩
      · rw [hn]; simp only [optSpec]; omega
      · rw [hn]; simp only [optSpec]; omega
    · left; exact hz

/-- **C17 (iii), partial** outside the creation lower-bound region: whenever a sync raises the new
    RS, old total + new size ≤ replicas + maxSurge. -/
theorem c17_iii_partial (s : State) (h : inv s = true) (hg : lowerBoundRegion s = false) :
    clauseIII s (post s) = true := by
  unfold clauseIII
  cases hsc : inScope s
  · simp
  · simp only [Bool.true_and, Bool.or_eq_true, Bool.not_eq_true', decide_eq_false_iff_not,
      decide_eq_true_eq]
    by_cases hup : newSpec s < newSpec (post s)
    · right
      obtain ⟨nw, h1, h2, hc⟩ := post_summary s hsc
      have hs0 := maxSurgeV_nonneg s h
      have ho := sumSpec_nonneg (inv_olds s h)
      simp only [oldTotal, newSpec] at *
      rcases hc with ⟨rn, hn, _, hs, _, _, hne⟩ | ⟨hn, _, he⟩
      · rw [hn] at hup ⊢
        cases hnew : s.new with
        | none =>
          have e := h2 hnew
          have c := (created_noLB s h hnew hg).2
          have cs := created_size s h
          by_cases hlt : nw.spec < newTarget s (sumSpec s.olds) nw.spec
          · have := newTarget_surge s _ _ ho hs0 hlt
            simp only [optSpec]; omega
          · have hR := inv_replicas s h
            have tg := newTarget_ge s (sumSpec s.olds) nw.spec (limit_bounds s hR).2
            rw [hnew] at hup
            simp only [optSpec] at hup ⊢
            omega
        | some r =>
          have e := h1 r hnew
          rw [hnew] at hup
          simp only [optSpec] at hup ⊢
          have := newTarget_surge s (sumSpec s.olds) nw.spec ho hs0 (by omega)
          omega
      · rw [hn] at hup ⊢
        cases hnew : s.new with
        | none =>
          have e := h2 hnew
          have c := (created_noLB s h hnew hg).2
          rw [hnew] at hup
          simp only [optSpec] at hup ⊢
          omega
        | some r =>
          have e := h1 r hnew
          rw [hnew] at hup
          simp only [optSpec] at hup
          omega
    · left; exact hup

/-- **C17 (iii), inside the lower-bound region** the total exceeds `replicas + maxSurge` by at most the
    one pod of the created new RS. -/
theorem c17_iii_lowerBound (s : State) (h : inv s = true) (hsc : inScope s = true) (hn : s.new = none) :
    oldTotal s + newSpec (post s) ≤ max (s.replicas + maxSurgeV s) (oldTotal s + 1) := by
  obtain ⟨nw, h1, h2, hc⟩ := post_summary s hsc
  have hs0 := maxSurgeV_nonneg s h
  have ho := sumSpec_nonneg (inv_olds s h)
  have c := created_LB s h
  have e := h2 hn
  simp only [oldTotal, newSpec] at *
  rcases hc with ⟨rn, hn', _, hs, _, _, hne⟩ | ⟨hn', _, he⟩
  · rw [hn']; simp only [optSpec]
    by_cases hlt : nw.spec < newTarget s (sumSpec s.olds) nw.spec
    · have := newTarget_surge s _ _ ho hs0 hlt; omega
    · have hR := inv_replicas s h
      have tg := newTarget_ge s (sumSpec s.olds) nw.spec (limit_bounds s hR).2
      have cs := created_size s h
      omega
  · rw [hn']; simp only [optSpec]; omega

end RV.Props.C17
