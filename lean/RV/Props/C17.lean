import RV.Lemmas.DepSync
/-!
# C17 — partition-style Deployment scaling respects partition, surge and availability

`s` ranges over *all* abstract states (any replicas, any int/percent/malformed partition and
fenceposts, any number of old ReplicaSets of any sizes, any status numbers); `post s` is the
state after one `syncDeployment` of the model `RV.DepSync` (tied to the Go code by suite
"depsync").  `inv` is the inductive invariant `I`.  The clause predicates are the `Bool`
functions of `RV.Oracle.C17`, the same ones the driver evaluates on the implementation's output.
-/
namespace RV.Props.C17
open RV.Arith RV.DepSync RV.Oracle.C17

/-- **C17 (ii)** a sync never lowers the old ReplicaSets' total below what the partition reserves
    for them: `oldTotal' ≥ min(oldTotal, replicas − max(limit, new'))`. -/
theorem c17_ii (s : State) (h : inv s = true) : clauseII s (post s) = true := by
  unfold clauseII
  cases hsc : inScope s
  · simp
  · simp only [Bool.not_true, Bool.false_or, decide_eq_true_eq]
    obtain ⟨nw, _, _, hc⟩ := post_summary s hsc
    have ro := reconcileOld_facts s s.olds nw (inv_olds s h)
    simp only [oldTotal, newSpec, reserve]
    rcases hc with ⟨rn, hn, ho, _⟩ | ⟨hn, ho, _⟩
    · rw [ho]; omega
    · rw [hn, ho]; simp only [optSpec]; omega


/-- **C17 (ii′)** when the old total is positive but below the reserve and the sync leaves the new
    RS alone, the old total is raised exactly to the reserve (`scaleUpOldReplicaSets`). -/
theorem c17_ii_up (s : State) (h : inv s = true) : clauseIIup s (post s) = true := by
  unfold clauseIIup
  cases hsc : inScope s
  · simp
  · simp only [Bool.true_and, Bool.or_eq_true, Bool.not_eq_true', Bool.and_eq_false_iff,
      decide_eq_false_iff_not, decide_eq_true_eq]
    obtain ⟨nw, h1, h2, hc⟩ := post_summary s hsc
    have ro := reconcileOld_facts s s.olds nw (inv_olds s h)
    have hR := inv_replicas s h
    have hl := limit_bounds s hR
    have hcs := created_size s h
    have tg := newTarget_ge s (sumSpec s.olds) nw.spec hl.2
    simp only [oldTotal, newSpec, reserve]
    rcases hc with ⟨rn, hn, ho, hs, _, _, hne⟩ | ⟨hn, ho, _⟩
    · rw [hn, ho]; simp only [optSpec]
      cases hnew : s.new with
      | none =>
        have := h2 hnew
        simp only [optSpec]; omega
      | some r =>
        have := h1 r hnew
        simp only [optSpec]; omega
    · rw [hn, ho]; simp only [optSpec]
      cases hnew : s.new with
      | none =>
        have := h2 hnew
        simp only [optSpec]; omega
      | some r =>
        have := h1 r hnew
        simp only [optSpec]; omega

/-- **C17 (iv, budget)** old pods removed by one sync ≤ unhealthy old pods (cleaned first) plus
    `available − (replicas − maxUnavailable)`. -/
theorem c17_iv_budget (s : State) (h : inv s = true) : clauseIVbudget s (post s) = true := by
  unfold clauseIVbudget
  cases hsc : inScope s
  · simp
  · simp only [Bool.not_true, Bool.false_or, decide_eq_true_eq]
    obtain ⟨nw, h1, h2, hc⟩ := post_summary s hsc
    have ro := reconcileOld_facts s s.olds nw (inv_olds s h)
    have u0 : 0 ≤ unhealthy s.olds := sumBy_nonneg _ _ (fun x _ => by omega)
    simp only [oldTotal, availTotal, minAvailable, unhealthyOld]
    have hu : unhealthy s.olds = sumBy (fun r => max 0 (r.spec - r.avail)) s.olds := rfl
    rcases hc with ⟨rn, hn, ho, _⟩ | ⟨hn, ho, _⟩
    · rw [ho]; omega
    · rw [ho]
      cases hnew : s.new with
      | none => have := h2 hnew; simp only [optAvail]; omega
      | some r => have := h1 r hnew; simp only [optAvail]; omega


/-- `stale` unfolded -/
theorem not_stale (s : State) (h : stale s = false) :
    (∀ r ∈ s.olds, r.avail ≤ r.spec) ∧ (∀ r, s.new = some r → r.avail ≤ r.spec) := by
  simp only [stale, List.any_eq_false, List.mem_append, decide_eq_true_eq, Int.not_lt] at h
  refine ⟨fun r hr => ?_, fun r hr => ?_⟩
  · have := h r (Or.inl hr); omega
  · have := h r (Or.inr (by simp [hr])); omega

/- **C17 (iv), full strength** — `∀ s, inv s → clauseIV s (post s)` — is FALSE for the unchanged code:
   see `c17_iv_witness` (known finding C17-F2, guard `stale`). -/

/-- **C17 (iv), partial** with fresh ReplicaSet statuses (no RS reports more available pods than its
    spec keeps) a sync never leaves fewer than `min(available now, replicas − maxUnavailable)` pods
    available. -/
theorem c17_iv_partial (s : State) (h : inv s = true) (hg : stale s = false) :
    clauseIV s (post s) = true := by
  unfold clauseIV
  cases hsc : inScope s
  · simp
  · simp only [Bool.not_true, Bool.false_or, decide_eq_true_eq]
    obtain ⟨nw, h1, h2, hc⟩ := post_summary s hsc
    have hok := inv_olds s h
    have ro := reconcileOld_facts s s.olds nw hok
    have hR := inv_replicas s h
    have hl := limit_bounds s hR
    have hcs := created_size s h
    have hu := maxUnavailV_bounds s h
    have tg := newTarget_ge s (sumSpec s.olds) nw.spec hl.2
    obtain ⟨f1, f2⟩ := not_stale s hg
    have k1 := kept_eq_avail s.olds f1
    have k0 : 0 ≤ sumBy keptAvail s.olds := by rw [k1]; exact sumAvail_nonneg hok
    simp only [floorAvail, minAvailable]
    rcases hc with ⟨rn, hn, ho, hs, ha, _, hne⟩ | ⟨hn, ho, _⟩
    · rw [hn, ho]
      cases hnew : s.new with
      | none =>
        have := h2 hnew
        simp only [keptAvail]; omega
      | some r =>
        have := h1 r hnew
        have := f2 r hnew
        have := (rsOk_iff r).mp (inv_new s h r hnew)
        simp only [keptAvail]; omega
    · rw [hn, ho]
      cases hnew : s.new with
      | none =>
        have := h2 hnew
        simp only [keptAvail]; omega
      | some r =>
        have := h1 r hnew
        have := f2 r hnew
        simp only [keptAvail]; omega


/- **C17 (i) and (iii), full strength** — `∀ s, inv s → clauseI s (post s)` / `clauseIII s (post s)` — are
   FALSE for the unchanged code: see `c17_i_witness`, `c17_iii_witness` (known findings C17-F1a/b,
   guard `lowerBound`: `NewRSReplicasLowerBound` creates the new RS with 1 replica when maxSurge = 0). -/

/-- **C17 (i), partial** outside the creation lower-bound region: while old pods exist, a sync never
    raises the new RS above `max(current size, partition limit)`. -/
theorem c17_i_partial (s : State) (h : inv s = true) (hg : lowerBoundRegion s = false) :
    clauseI s (post s) = true := by
  unfold clauseI
  cases hsc : inScope s
  · simp
  · simp only [Bool.true_and, Bool.or_eq_true, Bool.not_eq_true', decide_eq_false_iff_not,
      decide_eq_true_eq]
    by_cases hpos : 0 < oldTotal s
    · right
      obtain ⟨nw, h1, h2, hc⟩ := post_summary s hsc
      have hR := inv_replicas s h
      have hl := limit_bounds s hR
      have tl := newTarget_le s (sumSpec s.olds) nw.spec hpos
      simp only [oldTotal, newSpec] at *
      rcases hc with ⟨rn, hn, _, hs, _⟩ | ⟨hn, _⟩
      · rw [hn]
        cases hnew : s.new with
        | none =>
          have := h2 hnew
          have := (created_noLB s h hnew hg).1 hpos
          simp only [optSpec]; omega
        | some r =>
          have := h1 r hnew
          simp only [optSpec]; omega
      · rw [hn]
        cases hnew : s.new with
        | none =>
          have := h2 hnew
          have := (created_noLB s h hnew hg).1 hpos
          simp only [optSpec]; omega
        | some r =>
          have := h1 r hnew
          simp only [optSpec]; omega
    · left; exact hpos

/-- **C17 (i), inside the lower-bound region** the excess is at most one pod: a created new RS has
    at most `max(limit, 1)` replicas (while old pods exist). -/
theorem c17_i_lowerBound (s : State) (h : inv s = true) (hsc : inScope s = true) (hn : s.new = none)
    (hpos : 0 < oldTotal s) : newSpec (post s) ≤ max (limit s) 1 := by
  obtain ⟨nw, h1, h2, hc⟩ := post_summary s hsc
  have hR := inv_replicas s h
  have hl := limit_bounds s hR
  have tl := newTarget_le s (sumSpec s.olds) nw.spec hpos
  have c := created_LB s h
  have := h2 hn
  simp only [oldTotal, newSpec] at *
  simp only [hpos, if_true] at c
  rcases hc with ⟨rn, hn', _, hs, _⟩ | ⟨hn', _⟩
  · rw [hn']; simp only [optSpec]; omega
  · rw [hn']; simp only [optSpec]; omega

/-- **C17 (i′)** with no old pods the new RS is brought to `replicas` (nothing is being rolled). -/
theorem c17_i0 (s : State) (h : inv s = true) : clauseI0 s (post s) = true := by
  unfold clauseI0
  cases hsc : inScope s
  · simp
  · simp only [Bool.true_and, Bool.or_eq_true, Bool.not_eq_true', decide_eq_false_iff_not,
      decide_eq_true_eq]
    by_cases hz : oldTotal s = 0
    · right
      obtain ⟨nw, h1, h2, hc⟩ := post_summary s hsc
      have hR := inv_replicas s h
      have cs := created_size s h
      simp only [oldTotal, newSpec] at *
      have tz := newTarget_zero_old s nw.spec
      rw [hz] at hc
      rcases hc with ⟨rn, hn, _, hs, _⟩ | ⟨hn, _, he⟩
      · rw [hn]; simp only [optSpec]; omega
      · rw [hn]; simp only [optSpec]; omega
    · left; exact hz

/-- **C17 (iii), partial** outside the creation lower-bound region: whenever a sync raises the new
    RS, old total + new size ≤ replicas + maxSurge. -/
theorem c17_iii_partial (s : State) (h : inv s = true) (hg : lowerBoundRegion s = false) :
    clauseIII s (post s) = true := by
  unfold clauseIII
  cases hsc : inScope s
  · simp
  · simp only [Bool.true_and, Bool.or_eq_true, Bool.not_eq_true', decide_eq_false_iff_not,
      decide_eq_true_eq]
    by_cases hup : newSpec s < newSpec (post s)
    · right
      obtain ⟨nw, h1, h2, hc⟩ := post_summary s hsc
      have hs0 := maxSurgeV_nonneg s h
      have ho := sumSpec_nonneg (inv_olds s h)
      simp only [oldTotal, newSpec] at *
      rcases hc with ⟨rn, hn, _, hs, _, _, hne⟩ | ⟨hn, _, he⟩
      · rw [hn] at hup ⊢
        cases hnew : s.new with
        | none =>
          have e := h2 hnew
          have c := (created_noLB s h hnew hg).2
          have cs := created_size s h
          by_cases hlt : nw.spec < newTarget s (sumSpec s.olds) nw.spec
          · have := newTarget_surge s _ _ ho hs0 hlt
            simp only [optSpec]; omega
          · have hR := inv_replicas s h
            have tg := newTarget_ge s (sumSpec s.olds) nw.spec (limit_bounds s hR).2
            rw [hnew] at hup
            simp only [optSpec] at hup ⊢
            omega
        | some r =>
          have e := h1 r hnew
          rw [hnew] at hup
          simp only [optSpec] at hup ⊢
          have := newTarget_surge s (sumSpec s.olds) nw.spec ho hs0 (by omega)
          omega
      · rw [hn] at hup ⊢
        cases hnew : s.new with
        | none =>
          have e := h2 hnew
          have c := (created_noLB s h hnew hg).2
          rw [hnew] at hup
          simp only [optSpec] at hup ⊢
          omega
        | some r =>
          have e := h1 r hnew
          rw [hnew] at hup
          simp only [optSpec] at hup
          omega
    · left; exact hup

/-- **C17 (iii), inside the lower-bound region** the total exceeds `replicas + maxSurge` by at most the
    one pod of the created new RS. -/
theorem c17_iii_lowerBound (s : State) (h : inv s = true) (hsc : inScope s = true) (hn : s.new = none) :
    oldTotal s + newSpec (post s) ≤ max (s.replicas + maxSurgeV s) (oldTotal s + 1) := by
  obtain ⟨nw, h1, h2, hc⟩ := post_summary s hsc
  have hs0 := maxSurgeV_nonneg s h
  have ho := sumSpec_nonneg (inv_olds s h)
  have c := created_LB s h
  have e := h2 hn
  simp only [oldTotal, newSpec] at *
  rcases hc with ⟨rn, hn', _, hs, _, _, hne⟩ | ⟨hn', _, he⟩
  · rw [hn']; simp only [optSpec]
    by_cases hlt : nw.spec < newTarget s (sumSpec s.olds) nw.spec
    · have := newTarget_surge s _ _ ho hs0 hlt; omega
    · have hR := inv_replicas s h
      have tg := newTarget_ge s (sumSpec s.olds) nw.spec (limit_bounds s hR).2
      have cs := created_size s h
      omega
  · rw [hn']; simp only [optSpec]; omega


/-! ## The invariant `I` -/

/-- The closed system: controller syncs alternate with environment steps and user actions. -/
inductive Step : State → State → Prop
  /-- one `syncDeployment` -/
  | sync (s : State) : Step s (post s)
  /-- ReplicaSet controller / kubelet: pods move toward spec, availability changes (also flaps) -/
  | env {s t : State} : EnvStep s t → Step s t
  /-- scale event -/
  | scale (s : State) (n : Int) : 0 ≤ n → Step s { s with replicas := n }
  /-- partition change (raise or otherwise) -/
  | partition (s : State) (p : IntOrPct) : Step s { s with partition := p }
  /-- pause / resume -/
  | pause (s : State) (b : Bool) : Step s { s with paused := b }
  /-- new revision: the current new RS becomes an old one -/
  | newRevision (s : State) : Step s { s with new := none, olds := s.olds ++ s.new.toList }
  /-- rollback: an old RS becomes the new one -/
  | rollback (s : State) (l₁ l₂ : List RS) (r : RS) : s.olds = l₁ ++ r :: l₂ →
      Step s { s with new := some r, olds := l₁ ++ l₂ ++ s.new.toList }

inductive Reach (s₀ : State) : State → Prop
  | refl : Reach s₀ s₀
  | step {s t : State} : Reach s₀ s → Step s t → Reach s₀ t

/-- **`I` is preserved by a sync** — every path of `syncDeployment`: rolling, scaling, status only. -/
theorem inv_sync (s : State) (h : inv s = true) : inv (post s) = true := inv_post s h

/-- **`I` is preserved by the environment.** -/
theorem inv_env (s t : State) (h : inv s = true) (he : EnvStep s t) : inv t = true := env_inv s t h he

/-- **`I` is inductive**: preserved by every step of the closed system. -/
theorem inv_step (s t : State) (h : inv s = true) (hs : Step s t) : inv t = true := by
  obtain ⟨h1, h2, h3, h4, h5, h6, h7, h8⟩ := inv_elim s h
  obtain ⟨q1, q2⟩ := Q_all_of_inv s h
  cases hs with
  | sync => exact inv_post s h
  | env he => exact env_inv s t h he
  | scale n hn => exact inv_intro _ hn h2 h3 h4 h5 h6 h7 h8
  | partition p => exact inv_intro _ h1 h2 h3 h4 h5 h6 h7 h8
  | pause b => exact inv_intro _ h1 h2 h3 h4 h5 h6 h7 h8
  | newRevision =>
    have hq : ∀ r ∈ s.olds ++ s.new.toList, Q r := append_all q1 (toList_Q q2)
    exact inv_intro _ h1 h2 h3 (fun r hr => (hq r hr).1) (fun r hr => by cases hr) h6
      (fun r hr => (hq r hr).2) (fun r hr => by cases hr)
  | rollback l₁ l₂ r he =>
    have hr : Q r := q1 r (by rw [he]; simp)
    have hq : ∀ x ∈ l₁ ++ l₂ ++ s.new.toList, Q x := by
      apply append_all _ (toList_Q q2)
      intro x hx
      apply q1 x
      rw [he]
      rcases List.mem_append.mp hx with e | e
      · simp [e]
      · simp [e]
    exact inv_intro _ h1 h2 h3 (fun x hx => (hq x hx).1)
      (fun x hx => by simp only [Option.some.injEq] at hx; rw [← hx]; exact hr.1) h6
      (fun x hx => (hq x hx).2)
      (fun x hx => by simp only [Option.some.injEq] at hx; rw [← hx]; exact hr.2)

/-- `I` holds in every reachable state. -/
theorem inv_reach (s₀ s : State) (h : inv s₀ = true) (hr : Reach s₀ s) : inv s = true := by
  induction hr with
  | refl => exact h
  | step _ hs ih => exact inv_step _ _ ih hs

/-- Safety of every reachable sync: all unconditional clauses hold for every sync from every state
    reachable from a state satisfying `I`. -/
theorem c17_reachable (s₀ s : State) (h : inv s₀ = true) (hr : Reach s₀ s) :
    clauseII s (post s) = true ∧ clauseIIup s (post s) = true ∧ clauseI0 s (post s) = true ∧
    clauseIVbudget s (post s) = true ∧
    (lowerBoundRegion s = false → clauseI s (post s) = true ∧ clauseIII s (post s) = true) ∧
    (stale s = false → clauseIV s (post s) = true) := by
  have hi := inv_reach s₀ s h hr
  exact ⟨c17_ii s hi, c17_ii_up s hi, c17_i0 s hi, c17_iv_budget s hi,
    fun hg => ⟨c17_i_partial s hi hg, c17_iii_partial s hi hg⟩, fun hg => c17_iv_partial s hi hg⟩

/-! ## (v) Convergence when the partition covers all replicas -/

/-- **C17 (v), variant never increases**: under `live` (I, rolling path, covering partition, live
    fenceposts) a sync does not increase the variant, and `live` is kept. -/
theorem c17_v_sync (s : State) (h : live s = true) :
    live (post s) = true ∧ variant (post s) ≤ variant s := by
  obtain ⟨i0, sc0, cv0, _⟩ := live_elim _ h
  exact ⟨live_post s h, (variant_post_le s i0 sc0 cv0).1⟩

/-- **C17 (v), environment steps** keep `live` and the variant. -/
theorem c17_v_env (s t : State) (h : live s = true) (he : EnvStep s t) :
    live t = true ∧ variant t = variant s := ⟨env_live s t h he, env_variant s t he⟩

/-- **C17 (v), progress**: from a settled, non-final state a sync strictly decreases the variant —
    there is no stuck non-final state. -/
theorem c17_v_progress (s : State) (h : live s = true) (hs : settled s = true) (hf : final s = false) :
    variant (post s) < variant s := by
  obtain ⟨i0, sc0, cv0, l0⟩ := live_elim _ h
  exact variant_post_lt s i0 sc0 cv0 l0 hs hf

/-- the variant is 0 exactly in the final states (new RS = replicas, old RSs = 0) -/
theorem c17_v_final (s : State) (h : inv s = true) : variant s = 0 ↔ final s = true :=
  variant_zero_iff s h

/-- **C17 (v), healthy schedule**: alternating syncs with a ReplicaSet controller that catches up
    (`round`), the Deployment reaches new = replicas ∧ old = 0 within `variant s + 1` rounds. -/
theorem c17_v_rounds (s : State) (h : live s = true) : final (rounds (variant s + 1) s) = true := by
  obtain ⟨l1, s1, v1⟩ := live_round s h
  exact rounds_converge (variant s) (round s) l1 s1 v1

/-- a run of the closed system restricted to syncs and environment steps -/
def IsRun (σ : Nat → State) : Prop := ∀ i, σ (i + 1) = post (σ i) ∨ EnvStep (σ i) (σ (i + 1))
/-- fairness + healthy environment: again and again the ReplicaSet controller catches up and a sync
    runs on the settled state -/
def Fair (σ : Nat → State) : Prop := ∀ i, ∃ j, i ≤ j ∧ settled (σ j) = true ∧ σ (j + 1) = post (σ j)

/-- **C17 (v), any fair schedule**: every fair run from a `live` state reaches a final state. -/
theorem c17_v_fair (σ : Nat → State) (h0 : live (σ 0) = true) (hrun : IsRun σ) (hfair : Fair σ) :
    ∃ k, final (σ k) = true := by
  have hlive : ∀ i, live (σ i) = true := by
    intro i
    induction i with
    | zero => exact h0
    | succ i ih =>
      rcases hrun i with e | e
      · rw [e]; exact live_post _ ih
      · exact env_live _ _ ih e
  have hstep : ∀ i, variant (σ (i + 1)) ≤ variant (σ i) := by
    intro i
    rcases hrun i with e | e
    · rw [e]; exact (c17_v_sync _ (hlive i)).2
    · rw [env_variant _ _ e]; exact Nat.le_refl _
  have hmono : ∀ i j, i ≤ j → variant (σ j) ≤ variant (σ i) := by
    intro i j hij
    induction j with
    | zero => have : i = 0 := by omega
              rw [this]; exact Nat.le_refl _
    | succ j ih =>
      by_cases he : i = j + 1
      · rw [he]; exact Nat.le_refl _
      · have := ih (by omega); have := hstep j; omega
  have key : ∀ n i, variant (σ i) ≤ n → ∃ k, final (σ k) = true := by
    intro n
    induction n with
    | zero =>
      intro i hv
      exact ⟨i, (variant_zero_iff _ (live_elim _ (hlive i)).1).mp (by omega)⟩
    | succ n ih =>
      intro i hv
      obtain ⟨j, hij, hs, hp⟩ := hfair i
      cases hf : final (σ j) with
      | true => exact ⟨j, hf⟩
      | false =>
        have h1 := c17_v_progress _ (hlive j) hs hf
        have h2 := hmono i j hij
        rw [← hp] at h1
        exact ih (j + 1) (by omega)
  exact key _ 0 (Nat.le_refl _)

end RV.Props.C17
