import RV.Lemmas.BatchCtx
/-!
# C11 — BatchRelease status means what it says

Clause (i): the readiness verdict (`BatchContext.IsBatchReady`) is `ok` exactly when the
workload has at least the desired number of updated pods, ready ones within the failure
threshold, at least one ready when any is called for, and (with a rollout-id) enough
labelled pods.  Executor clauses are in section 2 (added with the Executor model).
-/
namespace RV.Props.C11
open RV.Arith IntOrPct RV.BatchCtx RV.Oracle.Batch

/-- **C11.i** — `Ready` is reported only if the workload really satisfies the batch. -/
theorem ready_sound (c : Ctx) (labelled : Option Int) (h0 : 0 ≤ c.updatedReady)
    (h : isBatchReady c labelled = .ok) :
    readyMeans c labelled = true := by
  unfold isBatchReady at h
  simp only [readyMeans, Bool.and_eq_true, decide_eq_true_eq]
  split at h
  · cases h
  · split at h
    · cases h
    · split at h
      · cases h
      · rename_i h1 h2 h3
        refine ⟨⟨⟨by omega, by omega⟩, ?_⟩, ?_⟩
        · intro hd
          have : ¬ (c.updatedReady = 0) := fun h0 => h3 ⟨hd, h0⟩
          omega
        · cases labelled with
          | none => trivial
          | some n =>
            simp only at h ⊢
            split at h
            · exact decide_eq_true (by assumption)
            · cases h

/-- and conversely: when the four conditions hold the verdict is `ok` (no spurious "not ready"). -/
theorem ready_complete (c : Ctx) (labelled : Option Int) (h : readyMeans c labelled = true) :
    isBatchReady c labelled = .ok := by
  simp only [readyMeans, Bool.and_eq_true, decide_eq_true_eq] at h
  obtain ⟨⟨⟨h1, h2⟩, h3⟩, h4⟩ := h
  unfold isBatchReady
  rw [if_neg (by omega), if_neg (by omega), if_neg (by intro ⟨a, b⟩; have := h3 a; omega)]
  cases labelled with
  | none => rfl
  | some n =>
    simp only [decide_eq_true_eq] at h4
    simp only [h4, if_true]

example : isBatchReady (Ctx.mk 10 5 4 5 5 (pct 50) (pct 50) (some (int 1))) (some 5) = .ok := by decide
example : isBatchReady (Ctx.mk 10 5 3 5 5 (pct 50) (pct 50) (some (int 1))) (some 5) = .notReady := by decide

end RV.Props.C11
