/-
  C07 — progress of the closed loop as theorems (slice closedloop3).

  `round` is one fair round of the closed loop: Rollout reconcile, BatchRelease reconcile, CloneSet controller, the user's approval,
  the clock (`[ro, br, env, approve, tick]`).  `mu : CS → Nat` is the explicit measure (RV/Oracle/ClosedLoopLive.lean: lexicographic
  in (steps left, sub-state of the step, executor's state inside the sub-state | clean-up cursor, BatchRelease's state), encoded
  with weight `stepW = 64` per step).  The same `mu` is an oracle on the fair walks of the real controllers
  (`C07.loop_measure_decreases`).

  What is carried along the rounds: `liveInv` (the forward invariant `fwdInv`, the configuration `liveCfg`, one of 27 round-boundary
  classes `cls`, and the boundary facts), `doneInv` (what the clean-up has achieved) and `polInv` (the BatchRelease's release policy
  while rolling).  For each class the lemma files RV/Lemmas/ClosedLoopLiveG1..G8 prove, by case analysis of the reconcile models,
  that the round is defined, re-establishes the three invariants, and strictly decreases `mu` (class 40: changes nothing).

  Limits (hence `_partial`): no traffic routing / step weights; no `long` pause; outside the region of open finding `pctFallback`;
  fair rounds only (no crash, no arbitrary interleaving); and `approve` in the round confirms every pause, so the pause timer is
  not exercised — those are judged by the oracles `C07.loop_terminates` / `C07.loop_measure_decreases` on the real controllers.
-/
import RV.Lemmas.ClosedLoopLiveG1
import RV.Lemmas.ClosedLoopLiveG2
import RV.Lemmas.ClosedLoopLiveG3
import RV.Lemmas.ClosedLoopLiveG4
import RV.Lemmas.ClosedLoopLiveG5
import RV.Lemmas.ClosedLoopLiveG6
import RV.Lemmas.ClosedLoopLiveG7
import RV.Lemmas.ClosedLoopLiveG8
namespace RV.Props.ClosedLoop
open RV.Arith RV.Traffic RV.RolloutSM RV.ClosedLoop RV.Oracle.ClosedLoop RV.Lemmas.ClosedLoop

/-! ### the classes cover `cls` -/

theorem cls_range (s : CS) :
    cls s ∈ [0, 1, 2, 4, 5, 6, 7, 8, 9, 10, 11, 12, 13, 14, 16, 17, 20, 21, 22, 23, 24, 25, 26, 27, 29, 30, 40] := by
  unfold cls
  repeat' split
  all_goals decide

/-! ### one round -/

/-- **one fair round (K = 1)** — from every state of the round-boundary invariant of a run without traffic routing (`liveInv`, with
    what the clean-up has achieved, `doneInv`) the round is defined (no reconciler panics), leads to a state of the invariant, and
    strictly decreases the measure — unless the state is the terminal class 40, which the round leaves unchanged.
    `_partial`: the hypothesis `liveInv` contains `liveCfg` (no traffic routing: `hasTraffic = false` and no step weight; no pause of
    the `long` kind, which no fair round ends; `0 < replicas`; `stepReady` for every step, which excludes the region of the open
    finding `pctFallback`, where the real loop does oscillate; workload not paused). -/
theorem round_decreases_partial (s : CS) (h : liveInv s = true) (hd : doneInv s = true) (hp : polInv s = true) :
    ∃ s', round s = some s' ∧ liveInv s' = true ∧ doneInv s' = true ∧ polInv s' = true ∧
      (mu s' < mu s ∨ (cls s = 40 ∧ s' = s)) := by
  have hne : cls s ≠ 0 := ((liveInv_iff s).1 h).2.2.1
  have key : ∀ (X : Nat), cls s = X →
      (∃ s', round s = some s' ∧ liveInv s' = true ∧ mu s' < mu s) →
      (∀ s', round s = some s' → doneInv s' = true) →
      (∀ s', round s = some s' → polInv s' = true) →
      ∃ s', round s = some s' ∧ liveInv s' = true ∧ doneInv s' = true ∧ polInv s' = true ∧
        (mu s' < mu s ∨ (cls s = 40 ∧ s' = s)) := by
    intro X _ hr hdn hpl
    obtain ⟨s', h1, h2, h3⟩ := hr
    exact ⟨s', h1, h2, hdn s' h1, hpl s' h1, Or.inl h3⟩
  have hr := cls_range s
  simp only [List.mem_cons, List.not_mem_nil, or_false] at hr
  rcases hr with hc | hc | hc | hc | hc | hc | hc | hc | hc | hc | hc | hc | hc | hc | hc | hc | hc | hc | hc | hc | hc | hc | hc | hc | hc | hc | hc
  · exact absurd hc hne
  · exact key 1 hc (round_cls_1 s h hc) (done_cls_1 s h hd hc) (pol_cls_1 s h hp hc)
  · exact key 2 hc (round_cls_2 s h hc) (done_cls_2 s h hd hc) (pol_cls_2 s h hp hc)
  · exact key 4 hc (round_cls_4 s h hc) (done_cls_4 s h hd hc) (pol_cls_4 s h hp hc)
  · exact key 5 hc (round_cls_5 s h hc) (done_cls_5 s h hd hc) (pol_cls_5 s h hp hc)
  · exact key 6 hc (round_cls_6 s h hc) (done_cls_6 s h hd hc) (pol_cls_6 s h hp hc)
  · exact key 7 hc (round_cls_7 s h hc) (done_cls_7 s h hd hc) (pol_cls_7 s h hp hc)
  · exact key 8 hc (round_cls_8 s h hp hc) (done_cls_8 s h hd hp hc) (pol_cls_8 s h hp hc)
  · exact key 9 hc (round_cls_9 s h hp hc) (done_cls_9 s h hd hp hc) (pol_cls_9 s h hp hc)
  · exact key 10 hc (round_cls_10 s h hp hc) (done_cls_10 s h hd hc) (pol_cls_10 s h hp hc)
  · exact key 11 hc (round_cls_11 s h hp hc) (done_cls_11 s h hd hc) (pol_cls_11 s h hp hc)
  · exact key 12 hc (round_cls_12 s h hp hc) (done_cls_12 s h hd hc) (pol_cls_12 s h hp hc)
  · exact key 13 hc (round_cls_13 s h hc) (done_cls_13 s h hd hc) (pol_cls_13 s h hp hc)
  · exact key 14 hc (round_cls_14 s h hc) (done_cls_14 s h hd hc) (pol_cls_14 s h hp hc)
  · exact key 16 hc (round_cls_16 s h hc) (done_cls_16 s h hd hc) (pol_cls_16 s h hp hc)
  · exact key 17 hc (round_cls_17 s h hc) (done_cls_17 s h hd hc) (pol_cls_17 s h hp hc)
  · exact key 20 hc (round_cls_20 s h hc) (done_cls_20 s h hd hc) (pol_cls_20 s h hp hc)
  · exact key 21 hc (round_cls_21 s h hc) (done_cls_21 s h hd hc) (pol_cls_21 s h hp hc)
  · exact key 22 hc (round_cls_22 s h hc) (done_cls_22 s h hd hc) (pol_cls_22 s h hp hc)
  · exact key 23 hc (round_cls_23 s h hc) (done_cls_23 s h hd hc) (pol_cls_23 s h hp hc)
  · exact key 24 hc (round_cls_24 s h hc) (done_cls_24 s h hd hc) (pol_cls_24 s h hp hc)
  · exact key 25 hc (round_cls_25 s h hc) (done_cls_25 s h hd hc) (pol_cls_25 s h hp hc)
  · exact key 26 hc (round_cls_26 s h hc) (done_cls_26 s h hd hc) (pol_cls_26 s h hp hc)
  · exact key 27 hc (round_cls_27 s h hc) (done_cls_27 s h hd hc) (pol_cls_27 s h hp hc)
  · exact key 29 hc (round_cls_29 s h hc) (done_cls_29 s h hd hc) (pol_cls_29 s h hp hc)
  · exact key 30 hc (round_cls_30 s h hc) (done_cls_30 s h hd hc) (pol_cls_30 s h hp hc)
  · exact ⟨s, (round_cls_40 s h hc).1, h, hd, hp, Or.inr ⟨hc, rfl⟩⟩

/-! ### the terminal class -/

theorem envWl_fix (w : CWl) (hok : wlOK w = true) (he : envWl w = w) (hp : w.partition = none) (hpa : w.paused = false) :
    w.updated = w.replicas ∧ w.generation = w.observedGeneration ∧ w.currentRevision = w.updateRevision := by
  simp only [wlOK, Bool.and_eq_true, decide_eq_true_eq] at hok
  obtain ⟨⟨⟨⟨_, _⟩, hle⟩, _⟩, _⟩ := hok
  unfold envWl at he
  dsimp only at he
  split at he
  · rename_i hne
    exfalso
    have hc := congrArg CWl.currentRevision he
    simp only [hpa, hp, Bool.false_eq_true, if_false] at hc
    have hge : (if w.updated < w.replicas then w.replicas else w.updated) ≥ w.replicas := by split <;> omega
    rw [if_pos hge] at hc
    exact hne hc
  · rename_i heq
    have h1 := congrArg CWl.updated he
    have h2 := congrArg CWl.observedGeneration he
    dsimp only at h1 h2
    exact ⟨h1.symm, h2, (Decidable.not_not.1 heq).symm⟩

theorem cls_40_shape (s : CS) (hc : cls s = 40) :
    ∃ w, s.wl = some w ∧ s.ro.phase = .healthy ∧ w.inProgressAnno = false ∧ s.br = none := by
  unfold cls at hc
  split at hc
  · exact absurd hc (by decide)
  · rename_i w hw
    refine ⟨w, hw, ?_⟩
    split at hc
    · rename_i hph
      by_cases ha : w.inProgressAnno = true
      · rw [if_pos ha] at hc
        exfalso; revert hc; (repeat' split) <;> decide
      · rw [if_neg ha] at hc
        cases hbr : s.br with
        | none => exact ⟨hph, by simpa using ha, rfl⟩
        | some b =>
          rw [hbr] at hc
          simp at hc
    all_goals (exfalso; revert hc; (repeat' split) <;> decide)

/-- **the terminal state is clean** — a state of the invariant in class 40 is `terminalOK`: the rollout is Healthy with
    `succeeded = some true`, no BatchRelease, nothing in progress, the CloneSet has no partition, no owner, is not paused, all
    replicas are updated and observed, the update revision is the current one -/
theorem terminal_of_cls_40 (s : CS) (h : liveInv s = true) (hd : doneInv s = true) (hc : cls s = 40) : terminalOK s = true := by
  obtain ⟨hf, _, _, hb⟩ := (liveInv_iff s).1 h
  have hmu := (round_cls_40 s h hc).2
  obtain ⟨w, hw, hph, ha, hbr⟩ := cls_40_shape s hc
  have hb' : atBoundary s = true := by
    rcases hb with hb | hb
    · rw [hc] at hb; cases hb
    · exact hb
  unfold atBoundary at hb'
  rw [hw] at hb'
  simp only [Bool.and_eq_true, beq_iff_eq] at hb'
  unfold doneInv at hd
  rw [hw, hmu] at hd
  simp only [Nat.not_lt_zero, decide_false, Bool.false_or, Bool.and_eq_true, Option.isNone_iff_eq_none, Bool.not_eq_true',
    beq_iff_eq] at hd
  obtain ⟨⟨⟨hp, hpa⟩, ho⟩, hs⟩ := hd
  unfold fwdInv at hf
  rw [hw] at hf
  simp only [Bool.and_eq_true] at hf
  obtain ⟨hro, ⟨⟨hwok, _⟩, _⟩, _⟩ := hf
  obtain ⟨h1, h2, h3⟩ := envWl_fix w hwok hb'.1 hp hpa
  have hg : s.gone = false := by
    simp only [roOK, Bool.and_eq_true, Bool.not_eq_true'] at hro
    exact hro.1.1.1.1.1.1.1
  simp [terminalOK, idleDone, hw, hg, hph, hbr, ha, hs, hp, hpa, ho, h1, h2, h3]

/-! ### many rounds -/

theorem rounds_succ (k : Nat) (s s' : CS) (h : round s = some s') : rounds (k + 1) s = rounds k s' := by
  simp only [rounds, h]

theorem rounds_fix (k : Nat) (s : CS) (h : round s = some s) : rounds k s = some s := by
  induction k with
  | zero => rfl
  | succ k ih => rw [rounds_succ k s s h]; exact ih

theorem rounds_add (j k : Nat) (s s' : CS) (h : rounds j s = some s') : rounds (j + k) s = rounds k s' := by
  induction j generalizing s with
  | zero => simp only [rounds, Option.some.injEq] at h; subst h; simp
  | succ j ih =>
    cases hr : round s with
    | none => simp only [rounds, hr] at h; cases h
    | some t =>
      rw [rounds_succ j s t hr] at h
      rw [show j + 1 + k = (j + k) + 1 by omega, rounds_succ (j + k) s t hr]
      exact ih t h

/-- the invariant along the fair rounds: every round is defined, the invariant holds after it, and after `k` rounds the measure
    has dropped by at least `k` — or the terminal class has been reached -/
theorem rounds_progress_partial (k : Nat) (s : CS) (h : liveInv s = true) (hd : doneInv s = true) (hp : polInv s = true) :
    ∃ s', rounds k s = some s' ∧ liveInv s' = true ∧ doneInv s' = true ∧ polInv s' = true ∧
      (mu s' + k ≤ mu s ∨ cls s' = 40) := by
  induction k generalizing s with
  | zero => exact ⟨s, rfl, h, hd, hp, Or.inl (Nat.le_refl _)⟩
  | succ k ih =>
    obtain ⟨t, ht, hl, hdn, hpl, hcase⟩ := round_decreases_partial s h hd hp
    rcases hcase with hlt | ⟨hc, heq⟩
    · obtain ⟨s', h1, h2, h3, h3', h4⟩ := ih t hl hdn hpl
      refine ⟨s', by rw [rounds_succ k s t ht]; exact h1, h2, h3, h3', ?_⟩
      rcases h4 with h4 | h4
      · exact Or.inl (by omega)
      · exact Or.inr h4
    · subst heq
      exact ⟨t, rounds_fix (k + 1) t ht, h, hd, hp, Or.inr hc⟩

/-- **C07 `loop_progress`, K = 1** — along the fair schedule from any state of the round-boundary invariant: the state after `j`
    rounds either is terminal — clean (`terminalOK`) and left unchanged by a further round — or one more round strictly decreases
    the measure.  So the loop neither stalls nor oscillates before the end.
    `_partial`: (a) hypothesis `liveInv` (see `round_decreases_partial`: no traffic routing, no `long` pause, outside the region of
    `pctFallback`); (b) the states are those at the boundaries of fair rounds, not every state reachable by an arbitrary legal
    interleaving (missing: a lemma that from an arbitrary reachable forward state a bounded number of rounds re-establishes the
    round-boundary facts `brSync`/`atBoundary`); with traffic routing the model needs up to 3 rounds per decrease and is judged by
    the oracle `C07.loop_measure_decreases` (K = 5) only. -/
theorem loop_progress_partial (s : CS) (j : Nat) (h : liveInv s = true) (hd : doneInv s = true) (hp : polInv s = true) :
    ∃ t, rounds j s = some t ∧
      ((terminalOK t = true ∧ round t = some t) ∨ (∃ t', round t = some t' ∧ mu t' < mu t)) := by
  obtain ⟨t, ht, hl, hdn, hpl, _⟩ := rounds_progress_partial j s h hd hp
  refine ⟨t, ht, ?_⟩
  obtain ⟨t', h1, _, _, _, h4⟩ := round_decreases_partial t hl hdn hpl
  rcases h4 with h4 | ⟨hc, heq⟩
  · exact Or.inr ⟨t', h1, h4⟩
  · subst heq
    exact Or.inl ⟨terminal_of_cls_40 t' hl hdn hc, h1⟩

/-- from a state of the invariant, `mu s + 1` rounds suffice: some `j ≤ mu s + 1` rounds lead to a clean terminal state, which
    every later round leaves unchanged -/
theorem rounds_terminate_partial (s : CS) (h : liveInv s = true) (hd : doneInv s = true) (hp : polInv s = true) :
    ∃ t, terminalOK t = true ∧ round t = some t ∧ ∀ k, mu s + 1 ≤ k → rounds k s = some t := by
  obtain ⟨t, ht, hl, hdn, _, hcase⟩ := rounds_progress_partial (mu s + 1) s h hd hp
  have hc : cls t = 40 := by
    rcases hcase with hcase | hcase
    · omega
    · exact hcase
  have hfix := (round_cls_40 t hl hc).1
  refine ⟨t, terminal_of_cls_40 t hl hdn hc, hfix, ?_⟩
  intro k hk
  obtain ⟨d, rfl⟩ : ∃ d, k = (mu s + 1) + d := ⟨k - (mu s + 1), by omega⟩
  rw [rounds_add (mu s + 1) d s t ht]
  exact rounds_fix d t hfix

/-! ### from `Init` and one release -/

/-- the settled idle states the termination theorem starts from: `Init` (Healthy, live, un-paused canary rollout in partition
    style with a non-empty monotone plan, one revision running, no BatchRelease), the configuration `liveCfg` (no traffic routing,
    no `long` pause, at least one replica, every step's partition reaches what the readiness check demands), and the CloneSet
    controller has observed the latest generation -/
def Settled (s : CS) : Prop :=
  Init s ∧ liveCfg s = true ∧ ∃ w, s.wl = some w ∧ w.observedGeneration = w.generation

/-- the release of a new revision from a settled idle state starts the invariant, with the measure below `muBound` -/
theorem release_live (s0 s1 : CS) (rev : String) (h0 : Settled s0) (hidle : idle s0 rev = true) (hrev : rev ≠ "")
    (hs : step s0 (.release rev) = some s1) :
    liveInv s1 = true ∧ doneInv s1 = true ∧ polInv s1 = true ∧ mu s1 + 1 = muBound s0.ro.steps.length := by
  obtain ⟨hinit, hcfg, w, hw, hobs⟩ := h0
  have hf0 := init_inv s0 hinit
  obtain ⟨t, ht, hf1⟩ := fwd_step s0 (.release rev) hf0 hidle
  rw [hs] at ht; cases ht
  obtain ⟨_, hph, hbr, _⟩ := hinit
  simp only [step, Option.some.injEq] at hs
  subst hs
  have hgen : (releaseWl rev w).generation = w.generation + 1 := by unfold releaseWl; dsimp only; split <;> rfl
  have hobs' : (releaseWl rev w).observedGeneration = w.observedGeneration := by unfold releaseWl; dsimp only; split <;> rfl
  have hanno : (releaseWl rev w).inProgressAnno = true := by unfold releaseWl; dsimp only; split <;> rfl
  have hrep : (releaseWl rev w).replicas = w.replicas := by unfold releaseWl; dsimp only; split <;> rfl
  have hpa : (releaseWl rev w).paused = false := by unfold releaseWl; dsimp only; split <;> rfl
  have hur : (releaseWl rev w).updateRevision = rev := by unfold releaseWl; dsimp only; split <;> rfl
  have hne : ¬ (releaseWl rev w).generation = (releaseWl rev w).observedGeneration := by rw [hgen, hobs', hobs]; omega
  have hcr : (releaseWl rev w).currentRevision = w.currentRevision := by unfold releaseWl; dsimp only; split <;> rfl
  have hrc : ((releaseWl rev w).updateRevision == (releaseWl rev w).currentRevision) = false := by
    rw [hur, hcr]
    simp only [idle, hw, Bool.and_eq_true] at hidle
    simpa using hidle.2.2
  have hupd : (releaseWl rev w).updated < (releaseWl rev w).replicas := by
    have hR : 0 < w.replicas := by
      unfold liveCfg at hcfg
      simp only [hw, Bool.and_eq_true, decide_eq_true_eq] at hcfg
      exact hcfg.2.1.1.1
    have hnc : ¬ rev = w.currentRevision := by
      simp only [idle, hw, Bool.and_eq_true] at hidle
      simpa using hidle.2.2
    rw [hrep]
    unfold releaseWl
    dsimp only
    rw [if_neg hnc]
    exact hR
  have hcls : cls { s0 with wl := s0.wl.map (releaseWl rev) } = 1 := by
    unfold cls
    simp only [hw, Option.map_some, hph, hanno, if_true, if_neg hne, hrc, Bool.false_eq_true, if_false, if_pos hupd]
  have hmu : mu { s0 with wl := s0.wl.map (releaseWl rev) } = 32 + s0.ro.steps.length * stepW + 2 + 1 := by
    unfold mu
    simp only [hw, Option.map_some, hph, hanno, if_true, if_neg hne]
  have hcfg1 : liveCfg { s0 with wl := s0.wl.map (releaseWl rev) } = true := by
    unfold liveCfg at hcfg ⊢
    simp only [hw, Option.map_some, planOf, Bool.and_eq_true, decide_eq_true_eq] at hcfg ⊢
    rw [hrep, hpa, hur]
    refine ⟨hcfg.1, ⟨⟨hcfg.2.1.1.1, hcfg.2.1.1.2⟩, rfl⟩, ?_⟩
    simpa using hrev
  refine ⟨(liveInv_iff _).2 ⟨hf1, hcfg1, by rw [hcls]; decide, Or.inl hcls⟩, ?_, by simp only [polInv, hbr], by rw [hmu]; rfl⟩
  unfold doneInv
  rw [hmu]
  simp only [hw, Option.map_some]
  have h12 : 12 < 32 + s0.ro.steps.length * stepW + 2 + 1 := by omega
  have h1 : 1 < 32 + s0.ro.steps.length * stepW + 2 + 1 := by omega
  simp only [h12, h1, decide_true, Bool.true_or, Bool.and_self]

/-- **C07 `loop_terminates`** — from a settled idle state and one release of a new revision, the fair schedule terminates: there
    is a state `t` — the rollout `Healthy` with `succeeded = some true`, the BatchRelease gone, nothing in progress, the CloneSet
    partition released, no owner, all replicas updated and observed (`terminalOK`) — such that after every number of rounds
    `k ≥ 64·(#steps + 1)` (c = 64, d = 1) the loop is in `t`; no reconciler panics on the way.
    `_partial`: for the configurations `liveCfg` (no traffic routing, no `long` pause, outside `pctFallback`), see
    `round_decreases_partial`. -/
theorem loop_terminates_partial (s0 s1 : CS) (rev : String) (h0 : Settled s0) (hidle : idle s0 rev = true) (hrev : rev ≠ "")
    (hs : step s0 (.release rev) = some s1) :
    ∃ t, terminalOK t = true ∧ round t = some t ∧ ∀ k, 64 * (s0.ro.steps.length + 1) ≤ k → rounds k s1 = some t := by
  obtain ⟨hl, hd, hp, hmu⟩ := release_live s0 s1 rev h0 hidle hrev hs
  obtain ⟨t, h1, h2, h3⟩ := rounds_terminate_partial s1 hl hd hp
  refine ⟨t, h1, h2, fun k hk => h3 k ?_⟩
  have : muBound s0.ro.steps.length = 32 + s0.ro.steps.length * 64 + 4 := rfl
  omega

/-- **C07 `loop_quiescent` (no oscillation)** — in a terminal state of the invariant further rounds change nothing -/
theorem loop_quiescent (s : CS) (k : Nat) (h : liveInv s = true) (hc : cls s = 40) : rounds k s = some s :=
  rounds_fix k s (round_cls_40 s h hc).1

/-! ### the hypotheses are satisfiable (kernel evaluation on a concrete plan) -/

/-- 10 replicas, plan 20 % (manual pause) / 50 % / 100 %, no traffic routing -/
def exL0 : CS :=
  { exS0 with ro := { exRo with hasTraffic := false,
                                steps := [⟨.pct 20, none, .manual⟩, ⟨.pct 50, none, .short⟩, ⟨.pct 100, none, .short⟩] } }
def exL1 : CS := { exL0 with wl := exL0.wl.map (releaseWl "v2") }

example : Settled exL0 := ⟨⟨by decide, rfl, rfl, exWl, rfl, by decide, by decide, rfl⟩, by decide +kernel, exWl, rfl, rfl⟩
example : idle exL0 "v2" = true := by decide +kernel
example : step exL0 (.release "v2") = some exL1 := rfl

/-- the fair schedule from the release visits every one of the 27 classes (so every `round_cls_X` / `done_cls_X` speaks about a
    reachable state), all in the invariant … -/
example : (List.range 43).map (fun k => ((rounds k exL1).map cls).getD 99) =
    [1, 2, 4, 5, 6, 8, 9, 10, 11, 12, 13, 14, 16, 5, 7, 9, 10, 11, 12, 13, 14, 16, 5, 7, 9, 10, 11, 12, 14, 16, 17, 20, 21, 22,
     23, 24, 25, 26, 27, 29, 30, 40, 40] := by decide +kernel
example : (List.range 43).all (fun k => ((rounds k exL1).map (fun s => liveInv s && doneInv s)).getD false) = true := by
  decide +kernel
/-- … with the measure strictly decreasing from `muBound 3 − 1 = 227` to 0 … -/
example : (List.range 43).map (fun k => ((rounds k exL1).map mu).getD 9999) =
    [227, 226, 224, 200, 190, 186, 182, 180, 178, 176, 168, 166, 162, 136, 124, 118, 116, 114, 112, 104, 102, 98, 72, 60, 54, 52,
     50, 48, 38, 34, 33, 22, 20, 18, 16, 14, 13, 12, 10, 8, 1, 0, 0] := by decide +kernel
/-- … and it ends, after 41 rounds (≤ 64·(3 + 1)), in a clean terminal state that a further round leaves unchanged -/
example : (rounds 41 exL1).map (fun t => (terminalOK t, round t == some t)) = some (true, true) := by decide +kernel
example : (rounds 40 exL1).map terminalOK = some false := by decide +kernel

end RV.Props.ClosedLoop
