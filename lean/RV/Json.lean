/-
  Small JSON helpers for the driver (core Lean only, no Mathlib).
-/
import Lean.Data.Json

namespace RV
open Lean

abbrev R := Except String

def jget (j : Json) (k : String) : R Json :=
  match j.getObjVal? k with
  | .ok v => .ok v
  | .error _ => .error s!"missing field {k}"

def jgetD (j : Json) (k : String) (d : Json) : Json :=
  match j.getObjVal? k with
  | .ok v => v
  | .error _ => d

def jnat (j : Json) : R Nat :=
  match j.getNat? with
  | .ok v => .ok v
  | .error e => .error s!"nat: {e} in {j.compress}"

def jint (j : Json) : R Int :=
  match j.getInt? with
  | .ok v => .ok v
  | .error e => .error s!"int: {e} in {j.compress}"

def jstr (j : Json) : R String :=
  match j.getStr? with
  | .ok v => .ok v
  | .error e => .error s!"str: {e} in {j.compress}"

def jbool (j : Json) : R Bool :=
  match j.getBool? with
  | .ok v => .ok v
  | .error e => .error s!"bool: {e} in {j.compress}"

def jarr (j : Json) : R (List Json) :=
  match j.getArr? with
  | .ok v => .ok v.toList
  | .error e => .error s!"arr: {e} in {j.compress}"

def jopt (j : Json) (k : String) : Option Json :=
  match j.getObjVal? k with
  | .ok .null => none
  | .ok v => some v
  | .error _ => none

def fNat (j : Json) (k : String) : R Nat := do jnat (← jget j k)
def fInt (j : Json) (k : String) : R Int := do jint (← jget j k)
def fStr (j : Json) (k : String) : R String := do jstr (← jget j k)
def fBool (j : Json) (k : String) : R Bool := do jbool (← jget j k)
def fArr (j : Json) (k : String) : R (List Json) := do jarr (← jget j k)

/-- array field; `null` or absent = empty (Go marshals nil slices as null) -/
def fArrD (j : Json) (k : String) : R (List Json) :=
  match jopt j k with
  | none => .ok []
  | some v => jarr v

def fOptNat (j : Json) (k : String) : R (Option Nat) :=
  match jopt j k with
  | none => .ok none
  | some v => do return some (← jnat v)

def fOptInt (j : Json) (k : String) : R (Option Int) :=
  match jopt j k with
  | none => .ok none
  | some v => do return some (← jint v)

def fOptStr (j : Json) (k : String) : R (Option String) :=
  match jopt j k with
  | none => .ok none
  | some v => do return some (← jstr v)

def jlistM {α} (f : Json → R α) (j : Json) : R (List α) := do
  (← jarr j).mapM f

def mkObj (kvs : List (String × Json)) : Json := Json.mkObj kvs

def optJ {α} (f : α → Json) : Option α → Json
  | none => .null
  | some a => f a

def natJ (n : Nat) : Json := Json.num (JsonNumber.fromNat n)
def intJ (n : Int) : Json := Json.num (JsonNumber.fromInt n)
def strJ (s : String) : Json := Json.str s
def boolJ (b : Bool) : Json := Json.bool b
def arrJ (l : List Json) : Json := Json.arr l.toArray

/-- The result of one driver op: the model's output (or `null` when the op only
    carries oracles) and the verdicts of the property oracles evaluated on the
    *implementation's* output. -/
structure OpResult where
  model : Json := .null
  holds : List (String × Bool) := []
  /-- free-form classification of the case, for distribution statistics -/
  tags : List String := []

abbrev Handler := (op : String) → (inp : Json) → (impl : Json) → R OpResult

end RV
