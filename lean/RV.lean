import RV.Json
import RV.Drv.All
