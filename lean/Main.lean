import RV.Drv.All

open Lean RV

def respond (line : String) : String :=
  match Json.parse line with
  | .error e => (mkObj [("error", strJ s!"parse: {e}")]).compress
  | .ok j =>
    let r : R OpResult := do
      let suite ← fStr j "suite"
      let op ← fStr j "op"
      let inp := jgetD j "in" .null
      let impl := jgetD j "impl" .null
      match RV.Drv.lookup suite with
      | some h => h op inp impl
      | none => .error s!"unknown suite {suite}"
    match r with
    | .error e => (mkObj [("error", strJ e)]).compress
    | .ok res =>
      (mkObj [("model", res.model),
              ("holds", mkObj (res.holds.map fun (k, b) => (k, boolJ b))),
              ("tags", arrJ (res.tags.map strJ))]).compress

partial def loop (h : IO.FS.Stream) (out : IO.FS.Stream) : IO Unit := do
  let line ← h.getLine
  if line.isEmpty then return ()
  let l := line.trimAscii.toString
  if l.isEmpty then
    loop h out
  else
    out.putStrLn (respond l)
    loop h out

def main : IO Unit := do
  let i ← IO.getStdin
  let o ← IO.getStdout
  loop i o
  o.flush
