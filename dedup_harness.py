#!/usr/bin/env python3
"""Resolve top-level identifier clashes between independently written suite files
(package main): rename the later definitions with a per-suite prefix. Dev helper, run after merges."""
import re, glob, collections, os
os.chdir(os.path.join(os.path.dirname(os.path.abspath(__file__)), "harness"))
shared = {"main.go", "util.go", "k8s.go", "logclient.go"}
def tops(src):
    names = set(m.group(1) for m in re.finditer(r'^(?:func|type|var|const)\s+([A-Za-z_]\w*)', src, re.M))
    for blk in re.finditer(r'^(?:var|const)\s*\((.*?)^\)', src, re.M | re.S):
        names |= set(m.group(1) for m in re.finditer(r'^\s+([A-Za-z_]\w*)\b', blk.group(1), re.M))
    names.discard("init"); names.discard("_")
    return names
files = sorted(glob.glob("*.go"))
defs = collections.defaultdict(list)
for f in files:
    for n in tops(open(f).read()):
        defs[n].append(f)
for name, fs in sorted(defs.items()):
    if len(fs) < 2:
        continue
    keep = [f for f in fs if f in shared] or fs[:1]
    for f in fs:
        if f in keep[:1]:
            continue
        pre = re.sub(r'^suite_|\.go$', '', f)
        new = pre + name[0].upper() + name[1:]
        src = open(f).read()
        src = re.sub(r'(?<![\w.])' + re.escape(name) + r'\b', new, src)
        open(f, "w").write(src)
        print("renamed", name, "->", new, "in", f)
